#!/bin/sh
# Offline setup: warm the Go build cache for the harness packages (compiles /repo with -tags verif).
set -e
cd "$(dirname "$0")/harness"
export GOFLAGS=-mod=mod GOPROXY=off GOSUMDB=off GOTOOLCHAIN=local CGO_ENABLED=1
# go.sum of the harness must cover /repo's dependency graph
sort -u /repo/go.sum go.sum -o go.sum 2>/dev/null || cp /repo/go.sum go.sum
mkdir -p ../out/bin ../evidence
for p in $(go list -tags verif ./props/... 2>/dev/null); do
  n=$(echo "$p" | sed 's#verifharness/##; s#/#_#g')
  go test -tags verif -c -vet=off -o ../out/bin/$n.test "$p" || exit 1
done
# the race-detector build used by C19
go test -tags verif -race -c -vet=off -o ../out/bin/props_races.race.test ./props/races || exit 1
echo setup done
