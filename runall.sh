#!/bin/sh
# Runs every check of MANIFEST.json the way it is used: evidence file removed first,
# quick (default) or thorough command, and reports exit code / VIOLATION lines / evidence.
# usage: ./runall.sh [quick|thorough]   (VERIF_SEED is passed through, default 1)
cd "$(dirname "$0")"
tier=${1:-quick}
: "${VERIF_SEED:=1}"; export VERIF_SEED
export VERIF_TIER=$tier GOPROXY=off
bad=0
for id in $(python3 -c "import json;print(' '.join(c['property_id'] for c in json.load(open('MANIFEST.json'))['checks']))"); do
  cmd=$(python3 -c "import json,sys;print([c for c in json.load(open('MANIFEST.json'))['checks'] if c['property_id']=='$id'][0]['${tier}_cmd'])")
  rm -f evidence/$id.json
  t0=$(date +%s)
  out=$(sh -c "$cmd" 2>&1); rc=$?
  t1=$(date +%s)
  st=ok
  [ $rc -ne 0 ] && st="RC=$rc"
  echo "$out" | grep -q '^VIOLATION' && st="$st VIOLATION"
  [ -s evidence/$id.json ] || st="$st NO-EVIDENCE"
  [ "$st" = ok ] || bad=1
  echo "$id $st $((t1-t0))s $(echo "$out" | grep -c '^KNOWN-FINDING') known-finding line(s)"
  [ "$st" = ok ] || echo "$out" | tail -5
done
exit $bad
