module verifharness

go 1.23

toolchain go1.23.5

require (
	github.com/btcsuite/btcd v0.24.3-0.20250318170759-4f4ea81776d6
	github.com/btcsuite/btcd/btcec/v2 v2.3.4
	github.com/btcsuite/btcd/btcutil v1.1.5
	github.com/btcsuite/btcd/btcutil/psbt v1.1.8
	github.com/btcsuite/btcd/chaincfg/chainhash v1.1.0
	github.com/checksum0/go-electrum v0.0.0-20220912200153-b862ac442cf9
	github.com/elementsproject/glightning v0.0.0-20250728212555-da2a093f26a9
	github.com/elementsproject/peerswap v0.0.0
	github.com/lightningnetwork/lnd v0.18.4-beta.rc1
	github.com/vulpemventures/go-elements v0.5.1
	go.etcd.io/bbolt v1.3.11
	google.golang.org/grpc v1.59.0
	pgregory.net/rapid v1.3.0
)

require (
	github.com/Nvveen/Gotty v0.0.0-20120604004816-cd527374f1e5 // indirect
	github.com/aead/chacha20 v0.0.0-20180709150244-8b13a72661da // indirect
	github.com/aead/siphash v1.0.1 // indirect
	github.com/btcsuite/btclog v0.0.0-20170628155309-84c8d2346e9f // indirect
	github.com/btcsuite/btcwallet v0.16.10-0.20240912233857-ffb143c77cc5 // indirect
	github.com/btcsuite/btcwallet/wallet/txauthor v1.3.5 // indirect
	github.com/btcsuite/btcwallet/wallet/txrules v1.2.2 // indirect
	github.com/btcsuite/btcwallet/wallet/txsizes v1.2.5 // indirect
	github.com/btcsuite/btcwallet/walletdb v1.4.4 // indirect
	github.com/btcsuite/btcwallet/wtxmgr v1.5.4 // indirect
	github.com/btcsuite/go-socks v0.0.0-20170105172521-4720035b7bfd // indirect
	github.com/btcsuite/websocket v0.0.0-20150119174127-31079b680792 // indirect
	github.com/cenkalti/backoff/v4 v4.3.0 // indirect
	github.com/containerd/continuity v0.3.0 // indirect
	github.com/davecgh/go-spew v1.1.1 // indirect
	github.com/decred/dcrd/crypto/blake256 v1.0.1 // indirect
	github.com/decred/dcrd/dcrec/secp256k1/v4 v4.3.0 // indirect
	github.com/decred/dcrd/lru v1.1.2 // indirect
	github.com/docker/cli v20.10.17+incompatible // indirect
	github.com/docker/docker v24.0.7+incompatible // indirect
	github.com/docker/go-connections v0.4.0 // indirect
	github.com/docker/go-units v0.5.0 // indirect
	github.com/dustin/go-humanize v1.0.1 // indirect
	github.com/go-errors/errors v1.4.2 // indirect
	github.com/go-macaroon-bakery/macaroonpb v1.0.0 // indirect
	github.com/gogo/protobuf v1.3.2 // indirect
	github.com/golang-migrate/migrate/v4 v4.17.0 // indirect
	github.com/golang/protobuf v1.5.3 // indirect
	github.com/google/shlex v0.0.0-20191202100458-e7afc7fbc510 // indirect
	github.com/gorilla/websocket v1.5.0 // indirect
	github.com/grpc-ecosystem/go-grpc-middleware v1.3.0 // indirect
	github.com/grpc-ecosystem/grpc-gateway/v2 v2.11.3 // indirect
	github.com/hashicorp/errwrap v1.1.0 // indirect
	github.com/hashicorp/go-cleanhttp v0.5.2 // indirect
	github.com/hashicorp/go-multierror v1.1.1 // indirect
	github.com/hashicorp/go-retryablehttp v0.7.5 // indirect
	github.com/imdario/mergo v0.3.12 // indirect
	github.com/jackc/chunkreader/v2 v2.0.1 // indirect
	github.com/jackc/pgconn v1.14.3 // indirect
	github.com/jackc/pgerrcode v0.0.0-20240316143900-6e2875d9b438 // indirect
	github.com/jackc/pgio v1.0.0 // indirect
	github.com/jackc/pgpassfile v1.0.0 // indirect
	github.com/jackc/pgproto3/v2 v2.3.3 // indirect
	github.com/jackc/pgservicefile v0.0.0-20221227161230-091c0ba34f0a // indirect
	github.com/jackc/pgtype v1.14.0 // indirect
	github.com/jackc/pgx/v4 v4.18.2 // indirect
	github.com/jackc/pgx/v5 v5.3.1 // indirect
	github.com/jessevdk/go-flags v1.5.0 // indirect
	github.com/jrick/logrotate v1.1.2 // indirect
	github.com/kkdai/bstream v1.0.0 // indirect
	github.com/lightninglabs/gozmq v0.0.0-20191113021534-d20a764486bf // indirect
	github.com/lightninglabs/neutrino v0.16.1-0.20240425105051-602843d34ffd // indirect
	github.com/lightninglabs/neutrino/cache v1.1.2 // indirect
	github.com/lightningnetwork/lightning-onion v1.2.1-0.20240712235311-98bd56499dfb // indirect
	github.com/lightningnetwork/lnd/clock v1.1.1 // indirect
	github.com/lightningnetwork/lnd/fn v1.2.3 // indirect
	github.com/lightningnetwork/lnd/healthcheck v1.2.5 // indirect
	github.com/lightningnetwork/lnd/kvdb v1.4.10 // indirect
	github.com/lightningnetwork/lnd/queue v1.1.1 // indirect
	github.com/lightningnetwork/lnd/sqldb v1.0.4 // indirect
	github.com/lightningnetwork/lnd/ticker v1.1.1 // indirect
	github.com/lightningnetwork/lnd/tlv v1.2.6 // indirect
	github.com/lightningnetwork/lnd/tor v1.1.2 // indirect
	github.com/ltcsuite/ltcd v0.22.1-beta // indirect
	github.com/miekg/dns v1.1.50 // indirect
	github.com/mitchellh/mapstructure v1.4.1 // indirect
	github.com/moby/term v0.5.0 // indirect
	github.com/opencontainers/go-digest v1.0.0 // indirect
	github.com/opencontainers/image-spec v1.0.2 // indirect
	github.com/opencontainers/runc v1.1.12 // indirect
	github.com/ory/dockertest/v3 v3.10.0 // indirect
	github.com/pelletier/go-toml/v2 v2.0.5 // indirect
	github.com/pkg/errors v0.9.1 // indirect
	github.com/pmezard/go-difflib v1.0.0 // indirect
	github.com/remyoudompheng/bigfft v0.0.0-20230129092748-24d4a6f8daec // indirect
	github.com/rogpeppe/fastuuid v1.2.0 // indirect
	github.com/samber/lo v1.47.0 // indirect
	github.com/sirupsen/logrus v1.9.2 // indirect
	github.com/stretchr/objx v0.5.2 // indirect
	github.com/stretchr/testify v1.9.0 // indirect
	github.com/vulpemventures/fastsha256 v0.0.0-20160815193821-637e65642941 // indirect
	github.com/vulpemventures/go-secp256k1-zkp v1.1.6 // indirect
	github.com/xeipuuv/gojsonpointer v0.0.0-20180127040702-4e3ac2762d5f // indirect
	github.com/xeipuuv/gojsonreference v0.0.0-20180127040603-bd5ef7bd5415 // indirect
	github.com/xeipuuv/gojsonschema v1.2.0 // indirect
	go.uber.org/atomic v1.10.0 // indirect
	go.uber.org/multierr v1.8.0 // indirect
	go.uber.org/zap v1.23.0 // indirect
	golang.org/x/crypto v0.23.0 // indirect
	golang.org/x/exp v0.0.0-20240325151524-a685a6edb6d8 // indirect
	golang.org/x/net v0.25.0 // indirect
	golang.org/x/sync v0.10.0 // indirect
	golang.org/x/sys v0.20.0 // indirect
	golang.org/x/term v0.20.0 // indirect
	golang.org/x/text v0.16.0 // indirect
	google.golang.org/genproto v0.0.0-20231016165738-49dd2c1f3d0b // indirect
	google.golang.org/genproto/googleapis/api v0.0.0-20231016165738-49dd2c1f3d0b // indirect
	google.golang.org/genproto/googleapis/rpc v0.0.0-20231030173426-d783a09b4405 // indirect
	google.golang.org/protobuf v1.33.0 // indirect
	gopkg.in/errgo.v1 v1.0.1 // indirect
	gopkg.in/macaroon-bakery.v2 v2.3.0 // indirect
	gopkg.in/macaroon.v2 v2.1.0 // indirect
	gopkg.in/yaml.v2 v2.4.0 // indirect
	gopkg.in/yaml.v3 v3.0.1 // indirect
	modernc.org/libc v1.49.3 // indirect
	modernc.org/mathutil v1.6.0 // indirect
	modernc.org/memory v1.8.0 // indirect
	modernc.org/sqlite v1.29.10 // indirect
)

replace github.com/elementsproject/peerswap => /repo

replace github.com/grpc-ecosystem/go-grpc-middleware => github.com/nepet/go-grpc-middleware v1.3.1-0.20220824133300-340e95267339

replace google.golang.org/protobuf => github.com/lightninglabs/protobuf-go-hex-display v1.30.0-hex-display
