// Package realtx builds and inspects real Elements (confidential) and Bitcoin
// transactions for the checks that need the repository's real on-chain code
// (onchain.LiquidOnChain, onchain.BitcoinOnChain, the LND wallet adapter).
package realtx

import (
	"bytes"
	"crypto/sha256"
	"encoding/hex"
	"errors"
	"fmt"
	"sync"

	"github.com/btcsuite/btcd/btcec/v2"
	"github.com/elementsproject/peerswap/swap"
	"github.com/vulpemventures/go-elements/address"
	"github.com/vulpemventures/go-elements/confidential"
	"github.com/vulpemventures/go-elements/elementsutil"
	"github.com/vulpemventures/go-elements/network"
	"github.com/vulpemventures/go-elements/payment"
	"github.com/vulpemventures/go-elements/transaction"
)

// Net is the Elements network the simulated liquid chain uses.
var Net = &network.Regtest

// PolicyAsset returns the 33-byte (0x01-prefixed, reversed) policy asset tag and the 32-byte asset.
func PolicyAsset() (tag33, asset32 []byte) {
	b, _ := hex.DecodeString(Net.AssetID)
	asset32 = elementsutil.ReverseBytes(b)
	return append([]byte{0x01}, asset32...), asset32
}

// OtherAsset is a second asset (for forged-asset deviations).
func OtherAsset() (tag33, asset32 []byte) {
	h := sha256.Sum256([]byte("some other asset"))
	return append([]byte{0x01}, h[:]...), h[:]
}

// Rand is the source of blinding factors / ephemeral keys (deterministic per builder).
type Rand struct {
	seed [32]byte
	n    uint64
}

func NewRand(seed string) *Rand { return &Rand{seed: sha256.Sum256([]byte(seed))} }

func (r *Rand) Bytes32() []byte {
	r.n++
	h := sha256.Sum256(append(r.seed[:], []byte(fmt.Sprintf("%d", r.n))...))
	return h[:]
}

func (r *Rand) Key() *btcec.PrivateKey {
	b := r.Bytes32()
	b[0] &= 0x7f
	k, _ := btcec.PrivKeyFromBytes(b)
	return k
}

// OutSpec describes one output of a liquid transaction to build.
type OutSpec struct {
	Script      []byte
	Value       uint64
	Asset32     []byte           // nil = policy asset
	BlindTo     *btcec.PublicKey // nil = explicit (unblinded) output
	NoProofs    bool             // leave range / surjection proofs out
	ForgedAsset []byte           // if set: commit to this asset while the range proof message carries Asset32
	Fee         bool
}

// BuildOutput creates a (blinded or explicit) output.
func BuildOutput(r *Rand, o OutSpec) (*transaction.TxOutput, error) {
	_, policy32 := PolicyAsset()
	asset32 := o.Asset32
	if asset32 == nil {
		asset32 = policy32
	}
	tag := append([]byte{0x01}, asset32...)
	if o.Fee {
		v, _ := elementsutil.ValueToBytes(o.Value)
		return transaction.NewTxOutput(tag, v, []byte{}), nil
	}
	if o.BlindTo == nil {
		v, _ := elementsutil.ValueToBytes(o.Value)
		return transaction.NewTxOutput(tag, v, o.Script), nil
	}
	abf, vbf := r.Bytes32(), r.Bytes32()
	commitAsset := asset32
	if o.ForgedAsset != nil {
		commitAsset = o.ForgedAsset
	}
	assetCommitment, err := confidential.AssetCommitment(commitAsset, abf)
	if err != nil {
		return nil, err
	}
	valueCommitment, err := confidential.ValueCommitment(o.Value, assetCommitment, vbf)
	if err != nil {
		return nil, err
	}
	eph := r.Key()
	nonce, err := confidential.NonceHash(o.BlindTo.SerializeCompressed(), eph.Serialize())
	if err != nil {
		return nil, err
	}
	out := transaction.NewTxOutput(tag, valueCommitment, o.Script)
	out.Asset = assetCommitment
	out.Value = valueCommitment
	out.Nonce = eph.PubKey().SerializeCompressed()
	if !o.NoProofs {
		var vbf32 [32]byte
		copy(vbf32[:], vbf)
		rp, err := confidential.RangeProof(confidential.RangeProofArgs{Value: o.Value, Nonce: nonce, Asset: asset32, AssetBlindingFactor: abf,
			ValueBlindFactor: vbf32, ValueCommit: valueCommitment, ScriptPubkey: o.Script, Exp: 0, MinBits: 52})
		if err != nil {
			return nil, err
		}
		sp, ok := confidential.SurjectionProof(confidential.SurjectionProofArgs{OutputAsset: commitAsset, OutputAssetBlindingFactor: abf,
			InputAssets: [][]byte{commitAsset}, InputAssetBlindingFactors: [][]byte{make([]byte, 32)}, Seed: r.Bytes32()})
		if !ok {
			return nil, errors.New("surjection proof")
		}
		out.RangeProof, out.SurjectionProof = rp, sp
	}
	return out, nil
}

// BuildTx assembles a transaction with nIn dummy inputs and the given outputs.
func BuildTx(r *Rand, nIn int, outs []OutSpec) (*transaction.Transaction, error) {
	tx := transaction.NewTx(2)
	for i := 0; i < nIn; i++ {
		in := transaction.NewTxInput(r.Bytes32(), uint32(i))
		in.Witness = [][]byte{r.Bytes32()}
		tx.Inputs = append(tx.Inputs, in)
	}
	for _, o := range outs {
		out, err := BuildOutput(r, o)
		if err != nil {
			return nil, err
		}
		tx.Outputs = append(tx.Outputs, out)
	}
	return tx, nil
}

// P2WSH returns the v0 witness script hash script of a redeem script.
func P2WSH(redeem []byte) []byte {
	h := sha256.Sum256(redeem)
	return append([]byte{0x00, 0x20}, h[:]...)
}

// LiquidChainTx is a liquid transaction the simulated chain accepted.
type LiquidChainTx struct {
	Tx  *transaction.Transaction
	Hex string
	ID  string
}

// LiquidWallet implements wallet.Wallet (the interface onchain.LiquidOnChain
// drives) and builds real confidential transactions.
type LiquidWallet struct {
	mu         sync.Mutex
	R          *Rand
	Key        *btcec.PrivateKey // spending key of the wallet's addresses
	BlindKey   *btcec.PrivateKey // blinding key of the wallet's addresses
	Balance    uint64
	FeeAnswer  uint64 // GetFee answer; 0 with FeeErr nil means "0"
	FeeErr     error
	Inputs     int // number of inputs of opening transactions
	OutsBefore int // outputs before the swap output in opening transactions
	OutsAfter  int
	EqualValue bool // another output carries exactly the swap amount
	Sent       []*LiquidChainTx
	Addresses  []string
	SendErr    error
	// OnSend is called for every transaction the wallet hands to the network.
	OnSend func(tx *LiquidChainTx)
}

func NewLiquidWallet(seed string) *LiquidWallet {
	r := NewRand(seed)
	return &LiquidWallet{R: r, Key: r.Key(), BlindKey: r.Key(), Balance: 10_0000_0000, FeeAnswer: 300, Inputs: 1}
}

// walletScript is the P2WPKH script of the wallet key.
func (w *LiquidWallet) walletScript() []byte {
	p := payment.FromPublicKey(w.Key.PubKey(), Net, w.BlindKey.PubKey())
	return p.WitnessScript
}

func (w *LiquidWallet) GetAddress() (string, error) {
	p := payment.FromPublicKey(w.Key.PubKey(), Net, w.BlindKey.PubKey())
	a, err := p.ConfidentialWitnessPubKeyHash()
	if err != nil {
		return "", err
	}
	w.mu.Lock()
	w.Addresses = append(w.Addresses, a)
	w.mu.Unlock()
	return a, nil
}

func (w *LiquidWallet) SendToAddress(string, uint64) (string, error) { return "", errors.New("not used") }

func (w *LiquidWallet) GetBalance() (uint64, error) { return w.Balance, nil }

func (w *LiquidWallet) CreateAndBroadcastTransaction(p *swap.OpeningParams, asset []byte) (string, string, uint64, error) {
	script, err := address.ToOutputScript(p.OpeningAddress)
	if err != nil {
		return "", "", 0, err
	}
	ca, err := address.FromConfidential(p.OpeningAddress)
	if err != nil {
		return "", "", 0, err
	}
	blindPub, err := btcec.ParsePubKey(ca.BlindingKey)
	if err != nil {
		return "", "", 0, err
	}
	var outs []OutSpec
	for i := 0; i < w.OutsBefore; i++ {
		v := uint64(70_000 + i)
		if w.EqualValue && i == 0 {
			v = p.Amount
		}
		outs = append(outs, OutSpec{Script: w.walletScript(), Value: v, BlindTo: w.BlindKey.PubKey()})
	}
	outs = append(outs, OutSpec{Script: script, Value: p.Amount, BlindTo: blindPub})
	for i := 0; i < w.OutsAfter; i++ {
		outs = append(outs, OutSpec{Script: w.walletScript(), Value: uint64(50_000 + i), BlindTo: w.BlindKey.PubKey()})
	}
	outs = append(outs, OutSpec{Fee: true, Value: 250})
	tx, err := BuildTx(w.R, w.Inputs, outs)
	if err != nil {
		return "", "", 0, err
	}
	h, err := tx.ToHex()
	if err != nil {
		return "", "", 0, err
	}
	id, err := w.SendRawTx(h)
	if err != nil {
		return "", "", 0, err
	}
	return id, h, 250, nil
}

func (w *LiquidWallet) SendRawTx(rawTx string) (string, error) {
	if w.SendErr != nil {
		return "", w.SendErr
	}
	tx, err := transaction.NewTxFromHex(rawTx)
	if err != nil {
		return "", err
	}
	ct := &LiquidChainTx{Tx: tx, Hex: rawTx, ID: tx.TxHash().String()}
	w.mu.Lock()
	w.Sent = append(w.Sent, ct)
	cb := w.OnSend
	w.mu.Unlock()
	if cb != nil {
		cb(ct)
	}
	return ct.ID, nil
}

func (w *LiquidWallet) GetFee(txSize int64) (uint64, error) {
	if w.FeeErr != nil {
		return 0, w.FeeErr
	}
	return w.FeeAnswer, nil
}

func (w *LiquidWallet) SetLabel(txID, address, label string) error { return nil }
func (w *LiquidWallet) Ping() (bool, error)                         { return true, nil }

// LastSent returns the most recently broadcast transaction.
func (w *LiquidWallet) LastSent() *LiquidChainTx {
	w.mu.Lock()
	defer w.mu.Unlock()
	if len(w.Sent) == 0 {
		return nil
	}
	return w.Sent[len(w.Sent)-1]
}

// Unblind opens a confidential output with a blinding key and re-commits to
// check that asset and value commitments really belong to the opened values.
func Unblind(out *transaction.TxOutput, blindKey *btcec.PrivateKey) (value uint64, asset32 []byte, err error) {
	if !out.IsConfidential() {
		v, err := elementsutil.ValueFromBytes(out.Value)
		if err != nil {
			return 0, nil, err
		}
		return v, out.Asset[1:], nil
	}
	res, err := confidential.UnblindOutputWithKey(out, blindKey.Serialize())
	if err != nil {
		return 0, nil, err
	}
	ac, err := confidential.AssetCommitment(res.Asset, res.AssetBlindingFactor)
	if err != nil || !bytes.Equal(ac, out.Asset) {
		return 0, nil, fmt.Errorf("asset commitment does not open to the claimed asset")
	}
	vc, err := confidential.ValueCommitment(res.Value, ac, res.ValueBlindingFactor)
	if err != nil || !bytes.Equal(vc, out.Value) {
		return 0, nil, fmt.Errorf("value commitment does not open to the claimed value")
	}
	return res.Value, res.Asset, nil
}
