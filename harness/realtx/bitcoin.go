package realtx

import (
	"bytes"
	"context"
	"encoding/hex"
	"errors"
	"fmt"
	"sync"

	"github.com/btcsuite/btcd/btcec/v2"
	"github.com/btcsuite/btcd/btcutil"
	"github.com/btcsuite/btcd/btcutil/psbt"
	"github.com/btcsuite/btcd/chaincfg"
	"github.com/btcsuite/btcd/chaincfg/chainhash"
	"github.com/btcsuite/btcd/txscript"
	"github.com/btcsuite/btcd/wire"
	"github.com/lightningnetwork/lnd/lnrpc"
	"github.com/lightningnetwork/lnd/lnrpc/walletrpc"
	"google.golang.org/grpc"
)

// BtcNet is the Bitcoin network of the simulated chain.
var BtcNet = &chaincfg.RegressionNetParams

// FixedEstimator implements onchain.Estimator.
type FixedEstimator struct {
	Rate btcutil.Amount
	Err  error
}

func (f *FixedEstimator) EstimateFeePerKW(uint32) (btcutil.Amount, error) { return f.Rate, f.Err }
func (f *FixedEstimator) Start() error                                    { return nil }

// BtcChainTx is a bitcoin transaction the fake wallet back-end published.
type BtcChainTx struct {
	Tx  *wire.MsgTx
	Hex string
	ID  string
}

// BtcWallet fakes the two LND gRPC clients the wallet adapter uses: funding
// (FundPsbt/FinalizePsbt/PublishTransaction), addresses and balance.
type BtcWallet struct {
	mu         sync.Mutex
	R          *Rand
	Key        *btcec.PrivateKey
	Balance    int64
	Inputs     int
	OutsBefore int
	OutsAfter  int
	EqualValue bool // an output before the swap output carries exactly the swap amount
	// NestedInputs is the number of funding inputs that are nested segwit (np2wkh) coins: finalizing adds a
	// scriptSig to them, so the id of the final transaction differs from the id of the funded, unsigned one
	NestedInputs int
	Published    []*BtcChainTx
	Labels       map[string]string
	PublishErr   error
	OnPublish    func(tx *BtcChainTx)
}

func NewBtcWallet(seed string) *BtcWallet {
	r := NewRand(seed)
	return &BtcWallet{R: r, Key: r.Key(), Balance: 10_0000_0000, Inputs: 1, Labels: map[string]string{}}
}

// Address returns the wallet's P2WPKH address and script.
func (w *BtcWallet) Address() (string, []byte) {
	h := btcutil.Hash160(w.Key.PubKey().SerializeCompressed())
	a, _ := btcutil.NewAddressWitnessPubKeyHash(h, BtcNet)
	s, _ := txscript.PayToAddrScript(a)
	return a.EncodeAddress(), s
}

// LN returns the lnrpc.LightningClient fake.
func (w *BtcWallet) LN() lnrpc.LightningClient { return &btcLN{w: w} }

// Kit returns the walletrpc.WalletKitClient fake.
func (w *BtcWallet) Kit() walletrpc.WalletKitClient { return &btcKit{w: w} }

type btcLN struct {
	lnrpc.LightningClient
	w *BtcWallet
}

func (l *btcLN) NewAddress(ctx context.Context, in *lnrpc.NewAddressRequest, opts ...grpc.CallOption) (*lnrpc.NewAddressResponse, error) {
	a, _ := l.w.Address()
	return &lnrpc.NewAddressResponse{Address: a}, nil
}

func (l *btcLN) WalletBalance(ctx context.Context, in *lnrpc.WalletBalanceRequest, opts ...grpc.CallOption) (*lnrpc.WalletBalanceResponse, error) {
	return &lnrpc.WalletBalanceResponse{TotalBalance: l.w.Balance, ConfirmedBalance: l.w.Balance}, nil
}

type btcKit struct {
	walletrpc.WalletKitClient
	w *BtcWallet
}

func (k *btcKit) FundPsbt(ctx context.Context, in *walletrpc.FundPsbtRequest, opts ...grpc.CallOption) (*walletrpc.FundPsbtResponse, error) {
	raw := in.GetRaw()
	if raw == nil || len(raw.Outputs) != 1 {
		return nil, errors.New("fake walletkit: expected one raw output")
	}
	w := k.w
	_, change := w.Address()
	tx := wire.NewMsgTx(2)
	var total int64
	var swapScript []byte
	var swapAmt int64
	for a, v := range raw.Outputs {
		addr, err := btcutil.DecodeAddress(a, BtcNet)
		if err != nil {
			return nil, err
		}
		swapScript, _ = txscript.PayToAddrScript(addr)
		swapAmt = int64(v)
	}
	for i := 0; i < w.OutsBefore; i++ {
		v := int64(60_000 + i)
		if w.EqualValue && i == 0 {
			v = swapAmt
		}
		tx.AddTxOut(wire.NewTxOut(v, change))
		total += v
	}
	tx.AddTxOut(wire.NewTxOut(swapAmt, swapScript))
	total += swapAmt
	for i := 0; i < w.OutsAfter; i++ {
		v := int64(40_000 + i)
		tx.AddTxOut(wire.NewTxOut(v, change))
		total += v
	}
	fee := int64(1234)
	for i := 0; i < w.Inputs; i++ {
		var h chainhash.Hash
		copy(h[:], w.R.Bytes32())
		tx.AddTxIn(wire.NewTxIn(wire.NewOutPoint(&h, uint32(i)), nil, nil))
	}
	p, err := psbt.NewFromUnsignedTx(tx)
	if err != nil {
		return nil, err
	}
	per := (total + fee) / int64(w.Inputs)
	for i := range p.Inputs {
		v := per
		if i == 0 {
			v = total + fee - per*int64(w.Inputs-1)
		}
		p.Inputs[i].WitnessUtxo = wire.NewTxOut(v, change)
	}
	var buf bytes.Buffer
	if err := p.Serialize(&buf); err != nil {
		return nil, err
	}
	return &walletrpc.FundPsbtResponse{FundedPsbt: buf.Bytes(), ChangeOutputIndex: -1}, nil
}

func (k *btcKit) FinalizePsbt(ctx context.Context, in *walletrpc.FinalizePsbtRequest, opts ...grpc.CallOption) (*walletrpc.FinalizePsbtResponse, error) {
	p, err := psbt.NewFromRawBytes(bytes.NewReader(in.FundedPsbt), false)
	if err != nil {
		return nil, err
	}
	final := p.UnsignedTx.Copy()
	for i := range final.TxIn {
		final.TxIn[i].Witness = wire.TxWitness{bytes.Repeat([]byte{0x30}, 71), k.w.Key.PubKey().SerializeCompressed()}
		if i < k.w.NestedInputs {
			// np2wkh: scriptSig = push of the 22-byte witness program
			prog := append([]byte{0x00, 0x14}, btcutil.Hash160(k.w.Key.PubKey().SerializeCompressed())...)
			final.TxIn[i].SignatureScript = append([]byte{byte(len(prog))}, prog...)
		}
	}
	var raw, signed bytes.Buffer
	if err := final.Serialize(&raw); err != nil {
		return nil, err
	}
	if err := p.Serialize(&signed); err != nil {
		return nil, err
	}
	return &walletrpc.FinalizePsbtResponse{SignedPsbt: signed.Bytes(), RawFinalTx: raw.Bytes()}, nil
}

func (k *btcKit) PublishTransaction(ctx context.Context, in *walletrpc.Transaction, opts ...grpc.CallOption) (*walletrpc.PublishResponse, error) {
	if k.w.PublishErr != nil {
		return nil, k.w.PublishErr
	}
	tx := wire.NewMsgTx(2)
	if err := tx.Deserialize(bytes.NewReader(in.TxHex)); err != nil {
		return nil, fmt.Errorf("fake walletkit: undecodable tx: %w", err)
	}
	ct := &BtcChainTx{Tx: tx, Hex: hex.EncodeToString(in.TxHex), ID: tx.TxHash().String()}
	k.w.mu.Lock()
	k.w.Published = append(k.w.Published, ct)
	cb := k.w.OnPublish
	k.w.mu.Unlock()
	if cb != nil {
		cb(ct)
	}
	return &walletrpc.PublishResponse{}, nil
}

func (k *btcKit) LabelTransaction(ctx context.Context, in *walletrpc.LabelTransactionRequest, opts ...grpc.CallOption) (*walletrpc.LabelTransactionResponse, error) {
	k.w.mu.Lock()
	defer k.w.mu.Unlock()
	k.w.Labels[hex.EncodeToString(in.Txid)] = in.Label
	return &walletrpc.LabelTransactionResponse{}, nil
}

// LastPublished returns the most recently published transaction.
func (w *BtcWallet) LastPublished() *BtcChainTx {
	w.mu.Lock()
	defer w.mu.Unlock()
	if len(w.Published) == 0 {
		return nil
	}
	return w.Published[len(w.Published)-1]
}

// VerifyBtcSpend runs btcd's script engine (standard flags) on input 0 of spend against prevOut.
func VerifyBtcSpend(spend *wire.MsgTx, prevOut *wire.TxOut) error {
	fetcher := txscript.NewCannedPrevOutputFetcher(prevOut.PkScript, prevOut.Value)
	sh := txscript.NewTxSigHashes(spend, fetcher)
	vm, err := txscript.NewEngine(prevOut.PkScript, spend, 0, txscript.StandardVerifyFlags, nil, sh, prevOut.Value, fetcher)
	if err != nil {
		return err
	}
	return vm.Execute()
}
