// Package pbt lets one property body serve both drivers of the technique family: rapid's
// random/shrinking engine (go test) and Go's coverage-guided native fuzzer (go test -fuzz),
// where the fuzzer's bytes are the entropy rapid's generators draw from (rapid.MakeFuzz).
package pbt

import (
	"testing"

	"pgregory.net/rapid"
)

// Run checks prop with rapid when tb is a *testing.T and registers it as the fuzz target when tb
// is a *testing.F. Under a *testing.F it must be the last thing the caller does.
func Run(tb testing.TB, prop func(*rapid.T)) {
	switch x := tb.(type) {
	case *testing.T:
		rapid.Check(x, prop)
	case *testing.F:
		// starting corpus: a few fixed pseudo-random entropy strings of different lengths (an empty
		// corpus makes rapid run out of entropy on almost every early input) plus all-zero and
		// all-one strings, which make every generator take its minimal / maximal choice
		x.Add(make([]byte, 4096))
		ones := make([]byte, 4096)
		for i := range ones {
			ones[i] = 0xff
		}
		x.Add(ones)
		state := uint64(0x9e3779b97f4a7c15)
		for _, n := range []int{256, 1024, 4096, 16384, 16384, 65536} {
			b := make([]byte, n)
			for i := range b {
				state ^= state << 13
				state ^= state >> 7
				state ^= state << 17
				b[i] = byte(state >> 32)
			}
			x.Add(b)
		}
		x.Fuzz(rapid.MakeFuzz(prop))
	default:
		tb.Fatalf("pbt.Run: unsupported %T", tb)
	}
}
