package sim

import (
	"time"

	"github.com/elementsproject/peerswap/messages"
)

// TickSender is one retransmitter registered through the real messages.Manager
// whose clock the harness owns.
type TickSender struct {
	SwapId   string
	Epoch    int
	C        chan time.Time
	Offered  int
	Consumed int
}

// tickManager wraps the real messages.Manager and hands every
// RedundantMessenger a harness-owned tick channel (hook H6) before the swap
// code starts its retransmission goroutine.
type tickManager struct {
	p     *Proc
	inner *messages.Manager
	// live: retransmitters registered and not yet removed - stopped when the process dies (a dead
	// process retransmits nothing)
	live map[string]messages.StoppableMessenger
}

// stopAll ends the retransmission loops of a process that died.
func (m *tickManager) stopAll() {
	for id, s := range m.live {
		// Stop belongs to the code under test: if it blocks, that is a finding, not a reason for the
		// harness to hang as well
		done := make(chan struct{})
		go func(s messages.StoppableMessenger) { defer close(done); s.Stop() }(s)
		select {
		case <-done:
		case <-time.After(3 * time.Second):
			m.p.N.W.noteHang("RedundantMessenger.Stop() did not return within 3s when the retransmitter of swap " + id + " was stopped")
		}
		delete(m.live, id)
	}
}

func (m *tickManager) AddSender(id string, messenger messages.StoppableMessenger) error {
	if m.p.point("mgr.AddSender", "enter", "") {
		return ErrDead
	}
	if rm, ok := messenger.(*messages.RedundantMessenger); ok {
		ts := &TickSender{SwapId: id, Epoch: m.p.Epoch, C: make(chan time.Time, 1)}
		rm.VerifSetTickChan(ts.C)
		w := m.p.N.W
		w.mu.Lock()
		m.p.N.Tickers = append(m.p.N.Tickers, ts)
		w.mu.Unlock()
	}
	err := m.inner.AddSender(id, messenger)
	if err == nil {
		w := m.p.N.W
		w.mu.Lock()
		m.live[id] = messenger
		w.mu.Unlock()
	}
	return err
}

func (m *tickManager) RemoveSender(id string) {
	if m.p.point("mgr.RemoveSender", "enter", "") {
		return
	}
	w := m.p.N.W
	w.mu.Lock()
	delete(m.live, id)
	w.mu.Unlock()
	m.inner.RemoveSender(id)
}

// OfferTick offers one tick with time.Ticker semantics (dropped when the
// buffer is full) and waits up to grace for the retransmitter to take it.
// It reports whether the tick was consumed.
func (ts *TickSender) OfferTick(grace time.Duration) bool {
	select {
	case ts.C <- time.Now():
	default:
		return false // buffer full: dropped like a real ticker would
	}
	ts.Offered++
	deadline := time.Now().Add(grace)
	for time.Now().Before(deadline) {
		if len(ts.C) == 0 {
			ts.Consumed++
			return true
		}
		time.Sleep(200 * time.Microsecond)
	}
	// take the tick back so that it does not count as "already due" later
	select {
	case <-ts.C:
	default:
		ts.Consumed++
		return true
	}
	return false
}
