package sim

import (
	"time"

	"github.com/elementsproject/peerswap/messages"
)

// TickSender is one retransmitter registered through the real messages.Manager
// whose clock the harness owns.
type TickSender struct {
	SwapId   string
	Epoch    int
	C        chan time.Time
	Offered  int
	Consumed int
}

// tickManager wraps the real messages.Manager and hands every
// RedundantMessenger a harness-owned tick channel (hook H6) before the swap
// code starts its retransmission goroutine.
type tickManager struct {
	p     *Proc
	inner *messages.Manager
}

func (m *tickManager) AddSender(id string, messenger messages.StoppableMessenger) error {
	if m.p.point("mgr.AddSender", "enter", "") {
		return ErrDead
	}
	if rm, ok := messenger.(*messages.RedundantMessenger); ok {
		ts := &TickSender{SwapId: id, Epoch: m.p.Epoch, C: make(chan time.Time, 1)}
		rm.VerifSetTickChan(ts.C)
		w := m.p.N.W
		w.mu.Lock()
		m.p.N.Tickers = append(m.p.N.Tickers, ts)
		w.mu.Unlock()
	}
	return m.inner.AddSender(id, messenger)
}

func (m *tickManager) RemoveSender(id string) {
	if m.p.point("mgr.RemoveSender", "enter", "") {
		return
	}
	m.inner.RemoveSender(id)
}

// OfferTick offers one tick with time.Ticker semantics (dropped when the
// buffer is full) and waits up to grace for the retransmitter to take it.
// It reports whether the tick was consumed.
func (ts *TickSender) OfferTick(grace time.Duration) bool {
	select {
	case ts.C <- time.Now():
	default:
		return false // buffer full: dropped like a real ticker would
	}
	ts.Offered++
	deadline := time.Now().Add(grace)
	for time.Now().Before(deadline) {
		if len(ts.C) == 0 {
			ts.Consumed++
			return true
		}
		time.Sleep(200 * time.Microsecond)
	}
	// take the tick back so that it does not count as "already due" later
	select {
	case <-ts.C:
	default:
		ts.Consumed++
		return true
	}
	return false
}
