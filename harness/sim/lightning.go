package sim

import (
	"crypto/sha256"
	"encoding/hex"
	"encoding/json"
	"errors"
	"fmt"
	"strings"
	"time"

	"github.com/elementsproject/peerswap/swap"
)

// Invoice is a simulated BOLT11 invoice. The payreq string is "lnsim" +
// hex(JSON) of the public part, so that anyone (also a scripted adversary) can
// craft one and DecodePayreq is a pure function of the string.
type Invoice struct {
	Payee      string `json:"payee"`
	Hash       string `json:"hash"`
	AmountMsat uint64 `json:"amount_msat"`
	CLTV       int64  `json:"cltv"`
	Expiry     uint64 `json:"expiry"`
	Label      string `json:"label"`
	Type       int    `json:"type"`
	Nonce      uint64 `json:"nonce"`

	Preimage  string `json:"-"` // hex, known to the payee only
	Paid      bool   `json:"-"`
	Expired   bool   `json:"-"`
	CreatedBy string `json:"-"`
}

// EncodeInvoice returns the payreq string of an invoice.
func EncodeInvoice(inv *Invoice) string {
	b, _ := json.Marshal(inv)
	return "lnsim" + hex.EncodeToString(b)
}

// DecodeInvoice parses a payreq string.
func DecodeInvoice(payreq string) (*Invoice, error) {
	if !strings.HasPrefix(payreq, "lnsim") {
		return nil, errors.New("invalid payreq")
	}
	b, err := hex.DecodeString(payreq[5:])
	if err != nil {
		return nil, err
	}
	var inv Invoice
	if err := json.Unmarshal(b, &inv); err != nil {
		return nil, err
	}
	return &inv, nil
}

// PayState is the state of an outgoing payment, per payment hash.
type PayState int

const (
	PayNone PayState = iota
	PayPending
	PaySucceeded
	PayFailed
)

func (s PayState) String() string {
	return [...]string{"none", "pending", "succeeded", "failed"}[s]
}

// Payment is the payment table entry of one payment hash.
type Payment struct {
	Hash     string
	Payer    string
	Payreq   string
	State    PayState
	HTLCs    int // number of HTLCs ever created for this hash
	Settled  int // number of HTLCs settled
	Attempts int
}

// PayOutcome is the planned result of one payment attempt.
type PayOutcome int

const (
	PaySuccess     PayOutcome = iota
	PayFailClean              // error, no HTLC left behind
	PayErrPending             // error returned although the HTLC is still in flight
	PayErrSettled             // error returned although the payment was settled
	PaySlowSuccess            // the call blocks (HTLC in flight) for longer than the payer's retry budget, then succeeds
)

// SlowPayDelay is how long a PaySlowSuccess attempt blocks (wall clock). It only has to exceed the
// retry budget the harness configures (swap.VerifSetPayTiming); code that waits for the call to
// return - as the claim-payment loop does - behaves the same whatever the value.
var SlowPayDelay = 130 * time.Millisecond

func (o PayOutcome) String() string {
	return [...]string{"success", "fail", "err-pending", "err-settled", "slow-success"}[o]
}

// Channel is a lightning channel between two nodes.
type Channel struct {
	Scid       string // 'x' spelling
	A, B       string // node ids
	Spendable  map[string]uint64
	Receivable map[string]uint64
	Connected  bool
}

// Notif is a queued incoming-payment notification.
type Notif struct {
	Node   string
	SwapId string
	Type   swap.InvoiceType
	Payreq string
}

// LNState is the lightning network shared by all nodes.
type LNState struct {
	w        *World
	Invoices map[string]*Invoice // by payreq
	Payments map[string]*Payment // by hash
	Channels map[string]*Channel // by 'x' spelling
	Notifs   []Notif
}

func newLNState(w *World) *LNState {
	return &LNState{w: w, Invoices: map[string]*Invoice{}, Payments: map[string]*Payment{}, Channels: map[string]*Channel{}}
}

// NormScid returns the canonical ('x') spelling.
func NormScid(s string) string { return strings.ReplaceAll(s, ":", "x") }

// AddChannel opens a channel.
func (l *LNState) AddChannel(scid, a, b string, aSpend, bSpend uint64) *Channel {
	c := &Channel{Scid: NormScid(scid), A: a, B: b, Connected: true,
		Spendable:  map[string]uint64{a: aSpend, b: bSpend},
		Receivable: map[string]uint64{a: bSpend, b: aSpend}}
	l.Channels[c.Scid] = c
	return c
}

// RegisterInvoice adds an externally crafted invoice (scripted peers).
func (l *LNState) RegisterInvoice(inv *Invoice) string {
	pr := EncodeInvoice(inv)
	l.Invoices[pr] = inv
	return pr
}

// settle marks the payment of payreq as settled and queues a notification.
func (l *LNState) settle(p *Payment, payreq string) string {
	p.State = PaySucceeded
	p.Settled++
	inv := l.Invoices[payreq]
	if inv == nil {
		return ""
	}
	inv.Paid = true
	l.queueNotif(inv, payreq)
	return inv.Preimage
}

func (l *LNState) queueNotif(inv *Invoice, payreq string) {
	n := l.w.Nodes[inv.CreatedBy]
	if n == nil {
		return
	}
	if nt, ok := n.Notifiers[payreq]; ok && !nt.fired {
		nt.fired = true
		l.Notifs = append(l.Notifs, Notif{Node: n.Name, SwapId: nt.swapId, Type: nt.typ, Payreq: payreq})
	}
}

// ResolvePending settles or fails a pending HTLC of hash (history action).
func (l *LNState) ResolvePending(hash string, settle bool) bool {
	l.w.mu.Lock()
	defer l.w.mu.Unlock()
	p := l.Payments[hash]
	if p == nil || p.State != PayPending {
		return false
	}
	if settle {
		if inv := l.Invoices[p.Payreq]; inv == nil || inv.Preimage == "" {
			p.State = PayFailed
			return true
		}
		l.settle(p, p.Payreq)
	} else {
		p.State = PayFailed
	}
	return true
}

// PaymentOf returns the payment entry for a hash (nil if none).
func (l *LNState) PaymentOf(hash string) *Payment {
	l.w.mu.Lock()
	defer l.w.mu.Unlock()
	return l.Payments[hash]
}

// PayCall records one payment attempt made by the code under test.
type PayCall struct {
	TraceIdx  int
	Epoch     int
	Kind      string // "claim" (RebalancePayment) or "fee" (PayInvoiceViaChannel) or "plain"
	Payreq    string
	Scid      string
	MaxTotal  uint32
	HeightBtc uint32
	HeightLbc uint32
	Outcome   string
	StateWas  PayState
	Err       string
	Returned  bool // the call has returned to the node (false while it blocks or if the process died inside it)
}

type notifier struct {
	swapId string
	typ    swap.InvoiceType
	fired  bool
}

// NodeLN implements swap.LightningClient for one process of a node.
type NodeLN struct {
	p *Proc
}

var _ swap.LightningClient = (*NodeLN)(nil)

func (n *NodeLN) DecodePayreq(payreq string) (string, uint64, int64, error) {
	if n.p.point("ln.DecodePayreq", "enter", "") {
		return "", 0, 0, ErrDead
	}
	if n.p.fault("ln.DecodePayreq") != FaultNone {
		return "", 0, 0, ErrInjected
	}
	inv, err := DecodeInvoice(payreq)
	if err != nil {
		return "", 0, 0, err
	}
	return inv.Hash, inv.AmountMsat, inv.CLTV, nil
}

func (n *NodeLN) PayInvoice(payreq string) (string, error) {
	return n.pay("plain", payreq, "", 0)
}

func (n *NodeLN) PayInvoiceViaChannel(payreq string, channel string) (string, error) {
	return n.pay("fee", payreq, channel, 0)
}

func (n *NodeLN) RebalancePayment(payreq string, channel string, maxTotalCLTVDelta uint32) (string, error) {
	return n.pay("claim", payreq, channel, maxTotalCLTVDelta)
}

func (n *NodeLN) pay(kind, payreq, scid string, maxTotal uint32) (string, error) {
	call := "ln.Pay." + kind
	if n.p.point(call, "enter", "") {
		return "", ErrDead
	}
	node := n.p.N
	w := node.W
	w.mu.Lock()
	inv, derr := DecodeInvoice(payreq)
	pc := &PayCall{TraceIdx: len(w.Trace) - 1, Epoch: n.p.Epoch, Kind: kind, Payreq: payreq, Scid: scid, MaxTotal: maxTotal,
		HeightBtc: w.Chains["btc"].Height, HeightLbc: w.Chains["lbtc"].Height}
	node.PayCalls = append(node.PayCalls, pc)
	if derr != nil {
		pc.Err = derr.Error()
		w.mu.Unlock()
		return "", derr
	}
	outcome := PaySuccess
	if q := node.PayPlan[kind]; len(q) > 0 {
		outcome = q[0]
		node.PayPlan[kind] = q[1:]
	}
	pc.Outcome = outcome.String()
	pay := w.LN.Payments[inv.Hash]
	if pay == nil {
		pay = &Payment{Hash: inv.Hash, Payer: node.Name, Payreq: payreq}
		w.LN.Payments[inv.Hash] = pay
	}
	pc.StateWas = pay.State
	pay.Attempts++
	var pre string
	var err error
	switch pay.State {
	case PaySucceeded:
		if node.LNDStyle {
			err = errors.New("invoice is already paid")
		} else {
			if reg := w.LN.Invoices[pay.Payreq]; reg != nil {
				pre = reg.Preimage
			}
		}
	case PayPending:
		err = errors.New("payment is in transition")
	default:
		reg := w.LN.Invoices[payreq]
		// a payment can only ever settle if the payee knows the preimage
		settleable := reg != nil && reg.Preimage != "" && !reg.Expired && !reg.Paid
		if ch := w.LN.Channels[NormScid(scid)]; scid != "" && (ch == nil || !ch.Connected) {
			settleable = false
			if outcome != PayFailClean {
				outcome = PayFailClean
				pc.Outcome = "fail(no-channel)"
			}
		}
		switch outcome {
		case PaySuccess:
			if !settleable {
				pay.State = PayFailed
				pay.HTLCs++
				err = errors.New("payment failed: incorrect_or_unknown_payment_details")
			} else {
				pay.HTLCs++
				pay.Payreq = payreq
				pre = w.LN.settle(pay, payreq)
			}
		case PayFailClean:
			pay.State = PayFailed
			err = errors.New("payment failed: temporary_channel_failure")
		case PayErrPending:
			pay.State = PayPending
			pay.Payreq = payreq
			pay.HTLCs++
			err = errors.New("rpc timeout waiting for payment result")
		case PayErrSettled:
			pay.HTLCs++
			pay.Payreq = payreq
			if settleable {
				w.LN.settle(pay, payreq)
			} else {
				pay.State = PayFailed
			}
			err = errors.New("stream closed before payment result")
		case PaySlowSuccess:
			if !settleable {
				pay.State = PayFailed
				pay.HTLCs++
				err = errors.New("payment failed: incorrect_or_unknown_payment_details")
				break
			}
			// the HTLC is out and the call does not return until it resolves
			pay.State = PayPending
			pay.Payreq = payreq
			pay.HTLCs++
			w.mu.Unlock()
			time.Sleep(SlowPayDelay)
			w.mu.Lock()
			if pay.State == PayPending {
				pre = w.LN.settle(pay, payreq)
			} else if pay.State == PaySucceeded {
				pre = reg.Preimage
			} else {
				err = errors.New("payment failed: temporary_channel_failure")
			}
		}
	}
	if err != nil {
		pc.Err = err.Error()
	}
	w.mu.Unlock()
	if n.p.point(call, "exit", pc.Outcome) {
		return "", ErrDead
	}
	w.mu.Lock()
	pc.Returned = true
	w.mu.Unlock()
	return pre, err
}

func (n *NodeLN) GetPayreq(msatAmount uint64, preimage string, swapId string, memo string, invoiceType swap.InvoiceType, expirySeconds, expiryCltv uint64) (string, error) {
	if n.p.point("ln.GetPayreq", "enter", invoiceType.String()) {
		return "", ErrDead
	}
	fk := n.p.fault("ln.GetPayreq")
	if fk == FaultBefore {
		return "", ErrInjected
	}
	node := n.p.N
	w := node.W
	w.mu.Lock()
	label := fmt.Sprintf("%s_%s", swapId, invoiceType)
	if !node.LNDStyle {
		for _, inv := range w.LN.Invoices {
			if inv.CreatedBy == node.Name && inv.Label == label {
				w.mu.Unlock()
				return "", errors.New("Duplicate label")
			}
		}
	}
	pb, err := hex.DecodeString(preimage)
	if err != nil || len(pb) != 32 {
		w.mu.Unlock()
		return "", fmt.Errorf("bad preimage %q", preimage)
	}
	h := sha256.Sum256(pb)
	inv := &Invoice{Payee: node.Id, Hash: hex.EncodeToString(h[:]), AmountMsat: msatAmount, CLTV: int64(expiryCltv),
		Expiry: expirySeconds, Label: label, Type: int(invoiceType), Nonce: w.nextNonce(), Preimage: preimage, CreatedBy: node.Name}
	pr := w.LN.RegisterInvoice(inv)
	node.InvoicesMade = append(node.InvoicesMade, pr)
	w.mu.Unlock()
	if n.p.point("ln.GetPayreq", "exit", "") {
		return "", ErrDead
	}
	if fk == FaultAfter {
		return "", ErrInjected
	}
	return pr, nil
}

func (n *NodeLN) AddPaymentCallback(f func(swapId string, invoiceType swap.InvoiceType)) {
	n.p.N.W.mu.Lock()
	defer n.p.N.W.mu.Unlock()
	if n.p.dead {
		return
	}
	n.p.N.payCb = f
}

func (n *NodeLN) AddPaymentNotifier(swapId string, payreq string, invoiceType swap.InvoiceType) {
	if n.p.point("ln.AddPaymentNotifier", "enter", invoiceType.String()) {
		return
	}
	node := n.p.N
	w := node.W
	w.mu.Lock()
	nt := &notifier{swapId: swapId, typ: invoiceType}
	node.Notifiers[payreq] = nt
	var fire func()
	if inv := w.LN.Invoices[payreq]; inv != nil && inv.Paid {
		// waitinvoice returns at once for an invoice that is already paid
		nt.fired = true
		if cb := node.payCb; node.Eager && cb != nil {
			fire = func() { cb(swapId, invoiceType) }
		} else {
			w.LN.Notifs = append(w.LN.Notifs, Notif{Node: node.Name, SwapId: swapId, Type: invoiceType, Payreq: payreq})
		}
	}
	w.mu.Unlock()
	if fire != nil {
		n.p.eagerly(fire)
	}
}

func (n *NodeLN) RecoverClaimPayment(payreq string) (string, error) {
	if n.p.point("ln.RecoverClaimPayment", "enter", "") {
		return "", ErrDead
	}
	node := n.p.N
	w := node.W
	w.mu.Lock()
	defer w.mu.Unlock()
	node.RecoverCalls++
	inv, err := DecodeInvoice(payreq)
	if err != nil {
		return "", err
	}
	pay := w.LN.Payments[inv.Hash]
	if pay == nil || pay.State == PayNone {
		return "", errors.New("claim payment was not found")
	}
	switch pay.State {
	case PaySucceeded:
		if reg := w.LN.Invoices[pay.Payreq]; reg != nil {
			return reg.Preimage, nil
		}
		return "", errors.New("claim payment was not found")
	case PayPending:
		// the real implementations block here until the HTLC resolves; the
		// simulated network resolves it according to the recover plan
		settle := true
		if len(node.RecoverPlan) > 0 {
			settle = node.RecoverPlan[0]
			node.RecoverPlan = node.RecoverPlan[1:]
		}
		reg := w.LN.Invoices[pay.Payreq]
		if settle && reg != nil && reg.Preimage != "" {
			return w.LN.settle(pay, pay.Payreq), nil
		}
		pay.State = PayFailed
		return "", errors.New("claim payment failed")
	}
	return "", errors.New("claim payment already failed")
}

func (n *NodeLN) CanSpend(amountMsat uint64) error {
	if n.p.point("ln.CanSpend", "enter", "") {
		return ErrDead
	}
	if n.p.fault("ln.CanSpend") != FaultNone {
		return ErrInjected
	}
	return nil
}

func (n *NodeLN) Implementation() string {
	if n.p.N.LNDStyle {
		return "LND"
	}
	return "CLN"
}

func (n *NodeLN) chanAmt(scid string, spend bool) (uint64, error) {
	node := n.p.N
	w := node.W
	w.mu.Lock()
	defer w.mu.Unlock()
	ch := w.LN.Channels[NormScid(scid)]
	if ch == nil || (ch.A != node.Id && ch.B != node.Id) {
		return 0, fmt.Errorf("could not find a channel with scid: %s", scid)
	}
	if !ch.Connected {
		return 0, errors.New("channel peer is not connected")
	}
	if spend {
		return ch.Spendable[node.Id], nil
	}
	return ch.Receivable[node.Id], nil
}

func (n *NodeLN) SpendableMsat(scid string) (uint64, error) {
	if n.p.point("ln.SpendableMsat", "enter", "") {
		return 0, ErrDead
	}
	if n.p.fault("ln.SpendableMsat") != FaultNone {
		return 0, ErrInjected
	}
	return n.chanAmt(scid, true)
}

func (n *NodeLN) ReceivableMsat(scid string) (uint64, error) {
	if n.p.point("ln.ReceivableMsat", "enter", "") {
		return 0, ErrDead
	}
	if n.p.fault("ln.ReceivableMsat") != FaultNone {
		return 0, ErrInjected
	}
	return n.chanAmt(scid, false)
}

func (n *NodeLN) ProbePayment(scid string, amountMsat uint64) (bool, string, error) {
	if n.p.point("ln.ProbePayment", "enter", "") {
		return false, "", ErrDead
	}
	switch n.p.fault("ln.ProbePayment") {
	case FaultBefore:
		return false, "", ErrInjected
	case FaultAfter:
		return false, "probe failed", nil
	}
	return true, "", nil
}
