package sim

import (
	"fmt"
	"strings"
	"sync"

	pslog "github.com/elementsproject/peerswap/log"
)

// ringLogger keeps the last lines the code under test logged.
type ringLogger struct {
	mu    sync.Mutex
	lines []string
	// starved counts starvation markers; caseT / caseBase remember the count when the current case began
	starved  int
	caseT    interface{}
	caseBase int
}

// CaseStart marks the beginning of a generated case (t identifies the case; repeated calls with the same t
// are ignored, so every helper that builds a world may call it).
func CaseStart(t interface{}) {
	theLog.mu.Lock()
	defer theLog.mu.Unlock()
	if theLog.caseT != t {
		theLog.caseT, theLog.caseBase = t, theLog.starved
	}
}

// Starved reports whether, since the current case began, a wall-clock budget of the code under test ran
// out before its first attempt (the machine was too busy for the shortened budgets).
func Starved() bool {
	theLog.mu.Lock()
	defer theLog.mu.Unlock()
	return theLog.starved > theLog.caseBase
}

// starvationMarker is what the claim-payment loop logs when its (harness-shortened) retry budget ran out
// before a single attempt was made or refused: its goroutine was not scheduled for the whole budget.
const starvationMarker = "could not pay invoice: timeout, last err: <nil>"

func (r *ringLogger) add(s string) {
	r.mu.Lock()
	defer r.mu.Unlock()
	if strings.Contains(s, starvationMarker) {
		r.starved++
	}
	r.lines = append(r.lines, s)
	if len(r.lines) > 400 {
		r.lines = r.lines[len(r.lines)-300:]
	}
}
func (r *ringLogger) Infof(format string, v ...any)  { r.add("[I] " + fmt.Sprintf(format, v...)) }
func (r *ringLogger) Debugf(format string, v ...any) { r.add("[D] " + fmt.Sprintf(format, v...)) }

var theLog = &ringLogger{}

func init() { pslog.SetLogger(theLog) }

// LogReset clears the captured log; LogDump returns it.
func LogReset() { theLog.mu.Lock(); theLog.lines = nil; theLog.mu.Unlock() }
func LogDump() string {
	theLog.mu.Lock()
	defer theLog.mu.Unlock()
	return strings.Join(theLog.lines, "\n")
}

// NodeById finds a real node by its lightning id.
func (w *World) NodeById(id string) *Node {
	for _, n := range w.Nodes {
		if n.Id == id {
			return n
		}
	}
	return nil
}

// delivered counts per message sequence number.
func (w *World) deliveredMap() map[int]int {
	if w.delivered == nil {
		w.delivered = map[int]int{}
	}
	return w.delivered
}

// PendingMsgs returns messages that reached the transport, were not yet
// delivered and are addressed to a live real node.
func (w *World) PendingMsgs() []*SentMsg {
	w.mu.Lock()
	defer w.mu.Unlock()
	var out []*SentMsg
	d := w.deliveredMap()
	for _, m := range w.Sent {
		if m.Failed || d[m.Seq] > 0 || w.dropped[m.Seq] {
			continue
		}
		if w.NodeByIdLocked(m.To) != nil {
			out = append(out, m)
		}
	}
	return out
}

func (w *World) NodeByIdLocked(id string) *Node {
	for _, n := range w.Nodes {
		if n.Id == id {
			return n
		}
	}
	return nil
}

// Drop marks a message as lost.
func (w *World) Drop(m *SentMsg) {
	w.mu.Lock()
	defer w.mu.Unlock()
	if w.dropped == nil {
		w.dropped = map[int]bool{}
	}
	w.dropped[m.Seq] = true
}

// DeliverMsg delivers m to its addressee (a real node).
func (w *World) DeliverMsg(m *SentMsg) (crashed bool, err error) {
	to := w.NodeById(m.To)
	from := w.Nodes[m.From]
	if to == nil || from == nil {
		return false, fmt.Errorf("no such node")
	}
	w.mu.Lock()
	w.deliveredMap()[m.Seq]++
	w.mu.Unlock()
	return to.Deliver(from.Id, m.Type, m.Payload)
}

// Settle runs the honest environment until nothing is left to do (or rounds
// are exhausted): deliver pending messages, due watcher callbacks and payment
// notifications. It never mines and never fires time-outs.
func (w *World) Settle(rounds int) {
	for r := 0; r < rounds; r++ {
		progress := false
		for _, m := range w.PendingMsgs() {
			w.DeliverMsg(m)
			progress = true
		}
		for _, n := range w.sortedNodes() {
			if n.Proc == nil || n.Proc.Dead() {
				continue
			}
			for _, nt := range n.TakePaymentNotifs() {
				n.DeliverPayment(nt)
				progress = true
			}
			for _, ev := range n.DueWatcherEvents() {
				n.DeliverWatcherEvent(ev)
				progress = true
			}
		}
		if !progress {
			return
		}
	}
}

func (w *World) sortedNodes() []*Node {
	names := make([]string, 0, len(w.Nodes))
	for k := range w.Nodes {
		names = append(names, k)
	}
	// small n; insertion sort keeps this dependency free
	for i := 1; i < len(names); i++ {
		for j := i; j > 0 && names[j] < names[j-1]; j-- {
			names[j], names[j-1] = names[j-1], names[j]
		}
	}
	out := make([]*Node, 0, len(names))
	for _, k := range names {
		out = append(out, w.Nodes[k])
	}
	return out
}

// Mine mines n blocks on a chain.
func (w *World) Mine(chain string, n uint32) {
	w.mu.Lock()
	defer w.mu.Unlock()
	w.Chains[chain].Mine(n)
}

// Height returns the tip height of a chain.
func (w *World) Height(chain string) uint32 {
	w.mu.Lock()
	defer w.mu.Unlock()
	return w.Chains[chain].Height
}
