package sim

import (
	"crypto/sha256"
	"encoding/hex"
	"encoding/json"
	"fmt"
)

// Out is a transaction output as the simulated chain sees it.
type Out struct {
	Script  string `json:"script"` // hex
	Value   uint64 `json:"value"`
	SpentBy string `json:"-"`
}

// In is a transaction input.
type In struct {
	TxID     string `json:"txid"`
	Vout     uint32 `json:"vout"`
	Sequence uint32 `json:"seq"`
	Path     string `json:"path,omitempty"` // token transactions: preimage|coop|csv|wallet
}

// Tx is a transaction known to a chain.
type Tx struct {
	ID      string
	Hex     string
	Version int32
	Ins     []In
	Outs    []Out
	Height  uint32 // 0 = in mempool
	Owner   string // node name that broadcast it ("" = external)
	Kind    string // opening|preimage|coop|csv|other
}

// Chain is a simulated block chain (best chain only) with a mempool.
type Chain struct {
	Name    string
	Height  uint32
	Txs     map[string]*Tx
	Order   []string
	Mempool []string
	// Log of accepted broadcasts in order.
	Broadcasts []string
}

func newChain(name string, h uint32) *Chain {
	return &Chain{Name: name, Height: h, Txs: map[string]*Tx{}}
}

// Confs returns the number of confirmations of txid (0 = mempool or unknown).
func (c *Chain) Confs(txid string) uint32 {
	tx, ok := c.Txs[txid]
	if !ok || tx.Height == 0 || tx.Height > c.Height {
		return 0
	}
	return c.Height - tx.Height + 1
}

// Accept checks inputs (existence, unspent, BIP68 relative lock for version>=2
// height-based sequences) and adds tx to the mempool.
func (c *Chain) Accept(tx *Tx) error {
	if _, ok := c.Txs[tx.ID]; ok {
		return fmt.Errorf("tx %s already known", tx.ID)
	}
	for _, in := range tx.Ins {
		if in.Path == "wallet" {
			continue // funded by the wallet's own coins, not modelled
		}
		prev, ok := c.Txs[in.TxID]
		if !ok {
			return fmt.Errorf("missing input %s", in.TxID)
		}
		if int(in.Vout) >= len(prev.Outs) {
			return fmt.Errorf("bad vout %d", in.Vout)
		}
		if prev.Outs[in.Vout].SpentBy != "" {
			return fmt.Errorf("input %s:%d already spent by %s", in.TxID, in.Vout, prev.Outs[in.Vout].SpentBy)
		}
		if tx.Version >= 2 && in.Sequence&(1<<31) == 0 {
			need := in.Sequence & 0xffff
			if in.Sequence&(1<<22) != 0 {
				return fmt.Errorf("time-based relative lock not modelled")
			}
			if need > 0 {
				// BIP68: spendable in block prevHeight+need; mempool accepts when tip+1 >= that
				if prev.Height == 0 || c.Height+1 < prev.Height+need {
					return fmt.Errorf("non-BIP68-final: need %d confs, have %d", need, c.Confs(in.TxID))
				}
			}
		}
	}
	for _, in := range tx.Ins {
		if in.Path == "wallet" {
			continue
		}
		c.Txs[in.TxID].Outs[in.Vout].SpentBy = tx.ID
	}
	tx.Height = 0
	c.Txs[tx.ID] = tx
	c.Order = append(c.Order, tx.ID)
	c.Mempool = append(c.Mempool, tx.ID)
	c.Broadcasts = append(c.Broadcasts, tx.ID)
	return nil
}

// Mine adds n blocks; the first one confirms the whole mempool.
func (c *Chain) Mine(n uint32) {
	for i := uint32(0); i < n; i++ {
		c.Height++
		for _, id := range c.Mempool {
			c.Txs[id].Height = c.Height
		}
		c.Mempool = nil
	}
}

// Spender returns the tx spending txid:vout ("" if unspent).
func (c *Chain) Spender(txid string, vout uint32) string {
	tx, ok := c.Txs[txid]
	if !ok || int(vout) >= len(tx.Outs) {
		return ""
	}
	return tx.Outs[vout].SpentBy
}

// ---- token transactions (synthetic, no script) ----

type tokenTx struct {
	Nonce   uint64 `json:"nonce"`
	Version int32  `json:"version"`
	Kind    string `json:"kind"`
	Ins     []In   `json:"ins"`
	Outs    []Out  `json:"outs"`
}

// EncodeToken serialises a token transaction to the hex string the swap code
// passes around, and computes its id.
func EncodeToken(t *tokenTx) (txHex, txid string) {
	b, _ := json.Marshal(t)
	h := sha256.Sum256(b)
	return hex.EncodeToString(b), hex.EncodeToString(h[:])
}

// DecodeToken parses a token transaction hex string.
func DecodeToken(txHex string) (*Tx, error) {
	b, err := hex.DecodeString(txHex)
	if err != nil {
		return nil, err
	}
	var t tokenTx
	if err := json.Unmarshal(b, &t); err != nil {
		return nil, err
	}
	h := sha256.Sum256(b)
	return &Tx{ID: hex.EncodeToString(h[:]), Hex: txHex, Version: t.Version, Ins: t.Ins, Outs: t.Outs, Kind: t.Kind}, nil
}
