package sim

import (
	"crypto/sha256"
	"encoding/hex"
	"errors"
	"fmt"

	"github.com/btcsuite/btcd/btcec/v2"
	"github.com/elementsproject/peerswap/swap"
)

// TokenScript is the synthetic "script" of a swap output in token transactions.
func TokenScript(p *swap.OpeningParams) string {
	h := sha256.Sum256([]byte(fmt.Sprintf("tok|%s|%s|%s|%d", p.TakerPubkey, p.MakerPubkey, p.ClaimPaymentHash, p.CSV)))
	return hex.EncodeToString(h[:])
}

// LbtcAsset is the (33-byte, hex) policy asset tag the token liquid wallet reports.
const LbtcAsset = "015ac9f65c0efcc4775e0baec4ec03abdde22473cd3cf33c0419ca290e0751b225"

// Opening records an opening transaction the node's wallet broadcast.
type Opening struct {
	TraceIdx int
	Epoch    int
	Chain    string
	TxID     string
	Vout     uint32
	Params   swap.OpeningParams
}

// Spend records a spending transaction the node's wallet broadcast.
type Spend struct {
	TraceIdx int
	Epoch    int
	Chain    string
	Kind     string
	TxID     string
	PrevTx   string
	PrevVout uint32
	Err      string
	// ReplyLost: the chain accepted the transaction but the wallet call returned an error to the node
	ReplyLost bool
}

// TokenWallet implements swap.Wallet and swap.Validator on synthetic transactions.
type TokenWallet struct {
	p     *Proc
	chain string
}

var _ swap.Wallet = (*TokenWallet)(nil)
var _ swap.Validator = (*TokenWallet)(nil)

func (t *TokenWallet) c() *Chain { return t.p.N.W.Chains[t.chain] }

func (t *TokenWallet) SetLabel(txID, address, label string) error {
	if t.p.point("wallet.SetLabel", "enter", t.chain) {
		return ErrDead
	}
	if t.p.fault("wallet.SetLabel") != FaultNone {
		return ErrInjected
	}
	return nil
}

func (t *TokenWallet) CreateOpeningTransaction(params *swap.OpeningParams) (string, string, string, uint64, uint32, error) {
	if t.p.point("wallet.CreateOpeningTransaction", "enter", t.chain) {
		return "", "", "", 0, 0, ErrDead
	}
	fk := t.p.fault("wallet.CreateOpeningTransaction")
	if fk == FaultBefore {
		return "", "", "", 0, 0, ErrInjected
	}
	node := t.p.N
	w := node.W
	w.mu.Lock()
	if node.Balance[t.chain] < params.Amount+node.OpeningFee {
		w.mu.Unlock()
		return "", "", "", 0, 0, errors.New("insufficient funds")
	}
	tt := &tokenTx{Nonce: w.nextNonce(), Version: 2, Kind: "opening", Ins: []In{{Path: "wallet"}}}
	before := node.ChangeBefore
	for i := 0; i < before; i++ {
		tt.Outs = append(tt.Outs, Out{Script: fmt.Sprintf("c0ffee%02x", i), Value: 5000 + uint64(i)})
	}
	vout := uint32(len(tt.Outs))
	tt.Outs = append(tt.Outs, Out{Script: TokenScript(params), Value: params.Amount})
	tt.Outs = append(tt.Outs, Out{Script: "c0ffeeff", Value: 777})
	txHex, txid := EncodeToken(tt)
	tx, _ := DecodeToken(txHex)
	tx.Owner = node.Name
	if err := t.c().Accept(tx); err != nil {
		w.mu.Unlock()
		return "", "", "", 0, 0, err
	}
	node.Balance[t.chain] -= params.Amount + node.OpeningFee
	node.Openings = append(node.Openings, &Opening{TraceIdx: len(w.Trace) - 1, Epoch: t.p.Epoch, Chain: t.chain, TxID: txid, Vout: vout, Params: *params})
	w.mu.Unlock()
	if t.p.point("wallet.CreateOpeningTransaction", "exit", txid[:8]) {
		return "", "", "", 0, 0, ErrDead
	}
	if fk == FaultAfter {
		return "", "", "", 0, 0, ErrInjected
	}
	return txHex, "addr-opening", txid, node.OpeningFee, vout, nil
}

func (t *TokenWallet) spend(kind string, params *swap.OpeningParams, claim *swap.ClaimParams, check func() error) (string, string, string, error) {
	call := "wallet.Create" + kind
	if t.p.point(call, "enter", t.chain) {
		return "", "", "", ErrDead
	}
	fk := t.p.fault(call)
	if fk == FaultBefore {
		return "", "", "", ErrInjected
	}
	node := t.p.N
	w := node.W
	w.mu.Lock()
	rec := &Spend{TraceIdx: len(w.Trace) - 1, Epoch: t.p.Epoch, Chain: t.chain, Kind: kind}
	node.Spends = append(node.Spends, rec)
	fail := func(err error) (string, string, string, error) {
		rec.Err = err.Error()
		w.mu.Unlock()
		return "", "", "", err
	}
	open, err := DecodeToken(claim.OpeningTxHex)
	if err != nil {
		return fail(fmt.Errorf("decode opening tx: %w", err))
	}
	want := TokenScript(params)
	vout := -1
	for i, o := range open.Outs {
		if o.Script == want {
			vout = i
			break
		}
	}
	if vout < 0 {
		return fail(errors.New("vout not found"))
	}
	rec.PrevTx, rec.PrevVout = open.ID, uint32(vout)
	if err := check(); err != nil {
		return fail(err)
	}
	seq := uint32(0)
	if kind == "CsvSpendingTransaction" {
		seq = params.CSV
	}
	tt := &tokenTx{Nonce: w.nextNonce(), Version: 2, Kind: kind, Ins: []In{{TxID: open.ID, Vout: uint32(vout), Sequence: seq, Path: kind}},
		Outs: []Out{{Script: "wallet-" + node.Name, Value: open.Outs[vout].Value - 300}}}
	txHex, txid := EncodeToken(tt)
	tx, _ := DecodeToken(txHex)
	tx.Owner = node.Name
	if err := t.c().Accept(tx); err != nil {
		return fail(err)
	}
	rec.TxID = txid
	w.mu.Unlock()
	if t.p.point(call, "exit", txid[:8]) {
		return "", "", "", ErrDead
	}
	if fk == FaultAfter {
		w.mu.Lock()
		rec.ReplyLost = true
		w.mu.Unlock()
		return "", "", "", ErrInjected
	}
	return txid, txHex, "addr-" + node.Name, nil
}

func (t *TokenWallet) CreatePreimageSpendingTransaction(params *swap.OpeningParams, claim *swap.ClaimParams) (string, string, string, error) {
	return t.spend("PreimageSpendingTransaction", params, claim, func() error {
		pb, err := hex.DecodeString(claim.Preimage)
		if err != nil || len(pb) != 32 {
			return errors.New("bad preimage")
		}
		h := sha256.Sum256(pb)
		if hex.EncodeToString(h[:]) != params.ClaimPaymentHash {
			return errors.New("script failed: preimage does not match hash")
		}
		return checkSigner(claim.Signer, params.TakerPubkey)
	})
}

func (t *TokenWallet) CreateCsvSpendingTransaction(params *swap.OpeningParams, claim *swap.ClaimParams) (string, string, string, error) {
	return t.spend("CsvSpendingTransaction", params, claim, func() error {
		return checkSigner(claim.Signer, params.MakerPubkey)
	})
}

func (t *TokenWallet) CreateCoopSpendingTransaction(params *swap.OpeningParams, claim *swap.ClaimParams, takerSigner swap.Signer) (string, string, string, error) {
	return t.spend("CoopSpendingTransaction", params, claim, func() error {
		if err := checkSigner(takerSigner, params.TakerPubkey); err != nil {
			return err
		}
		return checkSigner(claim.Signer, params.MakerPubkey)
	})
}

// checkSigner models script signature validation: the signer must hold the key
// behind pubHex.
func checkSigner(s swap.Signer, pubHex string) error {
	pb, err := hex.DecodeString(pubHex)
	if err != nil {
		return err
	}
	pk, err := btcec.ParsePubKey(pb)
	if err != nil {
		return err
	}
	h := sha256.Sum256([]byte("sim-sighash"))
	sig, err := s.Sign(h[:])
	if err != nil {
		return err
	}
	if !sig.Verify(h[:], pk) {
		return errors.New("script failed: signature does not match key")
	}
	return nil
}

func (t *TokenWallet) GetOutputScript(params *swap.OpeningParams) ([]byte, error) {
	h, err := hex.DecodeString(TokenScript(params))
	if err != nil {
		return nil, err
	}
	// shaped like a P2WSH script so that watchers which parse it accept it
	return append([]byte{0x00, 0x20}, h...), nil
}

func (t *TokenWallet) NewAddress() (string, error) { return "addr-" + t.p.N.Name, nil }

func (t *TokenWallet) GetRefundFee() (uint64, error) { return 300, nil }

func (t *TokenWallet) GetFlatOpeningTXFee() (uint64, error) {
	if t.p.point("wallet.GetFlatOpeningTXFee", "enter", t.chain) {
		return 0, ErrDead
	}
	if t.p.fault("wallet.GetFlatOpeningTXFee") != FaultNone {
		return 0, ErrInjected
	}
	t.p.N.W.mu.Lock()
	defer t.p.N.W.mu.Unlock()
	return t.p.N.OpeningFee, nil
}

func (t *TokenWallet) GetAsset() string {
	if t.chain == "lbtc" {
		return LbtcAsset
	}
	return ""
}

func (t *TokenWallet) GetNetwork() string {
	if t.chain == "btc" {
		if n := t.p.N.BtcNetwork; n != "" {
			return n
		}
		return "regtest"
	}
	return ""
}

func (t *TokenWallet) GetOnchainBalance() (uint64, error) {
	if t.p.point("wallet.GetOnchainBalance", "enter", t.chain) {
		return 0, ErrDead
	}
	if t.p.fault("wallet.GetOnchainBalance") != FaultNone {
		return 0, ErrInjected
	}
	t.p.N.W.mu.Lock()
	defer t.p.N.W.mu.Unlock()
	return t.p.N.Balance[t.chain], nil
}

// --- swap.Validator ---

func (t *TokenWallet) TxIdFromHex(txHex string) (string, error) {
	tx, err := DecodeToken(txHex)
	if err != nil {
		return "", err
	}
	return tx.ID, nil
}

func (t *TokenWallet) ValidateTx(params *swap.OpeningParams, txHex string) (bool, error) {
	if t.p.point("validator.ValidateTx", "enter", t.chain) {
		return false, ErrDead
	}
	if t.p.fault("validator.ValidateTx") != FaultNone {
		return false, ErrInjected
	}
	tx, err := DecodeToken(txHex)
	if err != nil {
		return false, err
	}
	want := TokenScript(params)
	for _, o := range tx.Outs {
		if o.Script == want {
			return o.Value == params.Amount, nil
		}
	}
	return false, nil
}

func (t *TokenWallet) GetCSVHeight() uint32 {
	if t.chain == "btc" {
		return 1008
	}
	return 60
}

// ---- watcher ----

// ConfWait is a registration for an opening-transaction confirmation.
type ConfWait struct {
	Epoch                     int
	SwapId, TxID              string
	Vout, StartHeight, Window uint32
	Done                      bool
}

// CsvWait is a registration for CSV maturity.
type CsvWait struct {
	Epoch        int
	SwapId, TxID string
	Vout, Csv    uint32
	Done         bool
}

// TokenWatcher implements swap.TxWatcher honouring the contract property C20
// states; the history decides when a due callback is delivered.
type TokenWatcher struct {
	p     *Proc
	chain string
}

var _ swap.TxWatcher = (*TokenWatcher)(nil)

// RequiredConfs per chain (BitcoinMinConfs / LiquidConfs).
func RequiredConfs(chain string) uint32 {
	if chain == "btc" {
		return 3
	}
	return 2
}

func (t *TokenWatcher) AddWaitForConfirmationTx(swapID, txID string, vout, startingHeight, paymentWindow uint32, scriptpubkey []byte) {
	if t.p.point("watcher.AddWaitForConfirmationTx", "enter", t.chain) {
		return
	}
	n := t.p.N
	w := n.W
	w.mu.Lock()
	cw := &ConfWait{Epoch: t.p.Epoch, SwapId: swapID, TxID: txID, Vout: vout, StartHeight: startingHeight, Window: paymentWindow}
	n.ConfWaits[t.chain] = append(n.ConfWaits[t.chain], cw)
	var fire func()
	if n.Eager {
		c := w.Chains[t.chain]
		ccb := n.confCb[t.chain]
		tx := c.Txs[txID]
		switch {
		case ccb == nil:
		case uint64(c.Height) >= uint64(startingHeight)+uint64(paymentWindow):
			cw.Done = true
			fire = func() { _ = ccb(swapID, "", fmt.Errorf("exceeded csv limit")) }
		case tx != nil && c.Confs(txID) >= RequiredConfs(t.chain):
			cw.Done = true
			hex := tx.Hex
			fire = func() { _ = ccb(swapID, hex, nil) }
		}
	}
	w.mu.Unlock()
	if fire != nil {
		t.p.eagerly(fire)
	}
}

func (t *TokenWatcher) AddWaitForCsvTx(swapID, txID string, vout, startingHeight, csv uint32, scriptpubkey []byte) {
	if t.p.point("watcher.AddWaitForCsvTx", "enter", t.chain) {
		return
	}
	n := t.p.N
	w := n.W
	w.mu.Lock()
	cs := &CsvWait{Epoch: t.p.Epoch, SwapId: swapID, TxID: txID, Vout: vout, Csv: csv}
	n.CsvWaits[t.chain] = append(n.CsvWaits[t.chain], cs)
	var fire func()
	if n.Eager {
		c := w.Chains[t.chain]
		vcb := n.csvCb[t.chain]
		tx := c.Txs[txID]
		if vcb != nil && tx != nil && int(vout) < len(tx.Outs) && tx.Outs[vout].SpentBy == "" && c.Confs(txID) >= csv {
			fire = func() {
				// like the polled delivery: the watch is dropped once the callback accepted the report
				if err := vcb(swapID); err == nil && !t.p.Dead() {
					w.mu.Lock()
					cs.Done = true
					w.mu.Unlock()
				}
			}
		}
	}
	w.mu.Unlock()
	if fire != nil {
		t.p.eagerly(fire)
	}
}

func (t *TokenWatcher) AddConfirmationCallback(f func(swapId string, txHex string, err error) error) {
	w := t.p.N.W
	w.mu.Lock()
	defer w.mu.Unlock()
	if !t.p.dead {
		t.p.N.confCb[t.chain] = f
	}
}

func (t *TokenWatcher) AddCsvCallback(f func(swapId string) error) {
	w := t.p.N.W
	w.mu.Lock()
	defer w.mu.Unlock()
	if !t.p.dead {
		t.p.N.csvCb[t.chain] = f
	}
}

func (t *TokenWatcher) GetBlockHeight() (uint32, error) {
	if t.p.point("watcher.GetBlockHeight", "enter", t.chain) {
		return 0, ErrDead
	}
	if t.p.fault("watcher.GetBlockHeight."+t.chain) != FaultNone || t.p.fault("watcher.GetBlockHeight") != FaultNone {
		return 0, ErrInjected
	}
	w := t.p.N.W
	w.mu.Lock()
	defer w.mu.Unlock()
	// planned block arrivals interleaved with this call (used to move the tip
	// while the payment retry loop is running)
	if q := t.p.N.MineOnHeightCall[t.chain]; len(q) > 0 {
		w.Chains[t.chain].Mine(q[0])
		t.p.N.MineOnHeightCall[t.chain] = q[1:]
	}
	h := w.Chains[t.chain].Height
	if q := t.p.N.HeightLag[t.chain]; len(q) > 0 {
		if q[0] < h {
			h -= q[0]
		} else {
			h = 0
		}
		t.p.N.HeightLag[t.chain] = q[1:]
	}
	t.p.N.HeightCalls = append(t.p.N.HeightCalls, HeightCall{TraceIdx: len(w.Trace) - 1, Chain: t.chain, Height: h})
	return h, nil
}

func (t *TokenWatcher) StartWatchingTxs() error { return nil }

// HeightCall records an answered height query.
type HeightCall struct {
	TraceIdx int
	Chain    string
	Height   uint32
}

// ExternalOpening lets a scripted (adversarial) maker put an opening
// transaction on a chain: outputs before the swap output, then an output with
// the given script and value. It returns txid, tx hex and the swap output index.
func (w *World) ExternalOpening(chain string, script string, value uint64, before int, extra []Out) (txid, txHex string, vout uint32, err error) {
	w.mu.Lock()
	defer w.mu.Unlock()
	tt := &tokenTx{Nonce: w.nextNonce(), Version: 2, Kind: "opening", Ins: []In{{Path: "wallet"}}}
	for i := 0; i < before; i++ {
		tt.Outs = append(tt.Outs, Out{Script: fmt.Sprintf("e0e0e0%02x", i), Value: 4000 + uint64(i)})
	}
	vout = uint32(len(tt.Outs))
	tt.Outs = append(tt.Outs, Out{Script: script, Value: value})
	tt.Outs = append(tt.Outs, extra...)
	txHex, txid = EncodeToken(tt)
	tx, _ := DecodeToken(txHex)
	if err := w.Chains[chain].Accept(tx); err != nil {
		return "", "", 0, err
	}
	return txid, txHex, vout, nil
}

// NewTokenWallet exposes the token wallet/validator for tests that plug in a real watcher.
func NewTokenWallet(p *Proc, chain string) *TokenWallet { return &TokenWallet{p: p, chain: chain} }

// ChainOf returns the simulated chain (for adapters living outside this package).
func (w *World) ChainOf(name string) *Chain { return w.Chains[name] }

// Locked runs f while holding the world lock (adapters reading chain state).
func (w *World) Locked(f func()) {
	w.mu.Lock()
	defer w.mu.Unlock()
	f()
}

// ExternalRawTx puts an opaque (real, non-token) transaction with n outputs
// into the mempool of a simulated chain so that the watcher contract can
// report it. Outputs carry no script information.
func (w *World) ExternalRawTx(chain, txid, txHex string, nOuts int, owner string) error {
	w.mu.Lock()
	defer w.mu.Unlock()
	tx := &Tx{ID: txid, Hex: txHex, Version: 2, Ins: []In{{Path: "wallet"}}, Owner: owner, Kind: "opening"}
	for i := 0; i < nOuts; i++ {
		tx.Outs = append(tx.Outs, Out{Script: "real", Value: 0})
	}
	return w.Chains[chain].Accept(tx)
}

// MarkSpent records that txid:vout was spent by spender (a real transaction broadcast by a node's wallet).
func (w *World) MarkSpent(chain, txid string, vout uint32, spender, owner string) error {
	w.mu.Lock()
	defer w.mu.Unlock()
	c := w.Chains[chain]
	prev := c.Txs[txid]
	if prev == nil || int(vout) >= len(prev.Outs) {
		return fmt.Errorf("unknown outpoint %s:%d", txid, vout)
	}
	if prev.Outs[vout].SpentBy != "" {
		return fmt.Errorf("outpoint %s:%d already spent", txid, vout)
	}
	prev.Outs[vout].SpentBy = spender
	c.Txs[spender] = &Tx{ID: spender, Owner: owner, Kind: "spend", Version: 2}
	c.Mempool = append(c.Mempool, spender)
	c.Order = append(c.Order, spender)
	return nil
}

// NewTokenWatcher exposes the contract-honouring watcher for tests that plug in real wallets.
func NewTokenWatcher(p *Proc, chain string) *TokenWatcher { return &TokenWatcher{p: p, chain: chain} }
