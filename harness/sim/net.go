package sim

import (
	"fmt"

	"github.com/elementsproject/peerswap/messages"
)

// SentMsg is a message handed to the transport by a node.
type SentMsg struct {
	Seq      int
	TraceIdx int
	From     string // node name
	Epoch    int
	To       string // peer id (pubkey hex)
	Type     int
	Payload  []byte
	Failed   bool // transport returned an error to the sender
	// PayStates is the payment table (hash -> state) at the moment of sending.
	PayStates map[string]PayState
}

// Messenger implements swap.Messenger for one process.
type Messenger struct {
	p *Proc
}

func (m *Messenger) SendMessage(peerId string, message []byte, messageType int) error {
	if m.p.point("msg.Send", "enter", fmt.Sprintf("%d", messageType)) {
		return ErrDead
	}
	fk := m.p.fault("msg.Send")
	w := m.p.N.W
	w.mu.Lock()
	sm := &SentMsg{Seq: len(w.Sent), TraceIdx: len(w.Trace) - 1, From: m.p.N.Name, Epoch: m.p.Epoch, To: peerId, Type: messageType,
		Payload: append([]byte{}, message...), Failed: fk == FaultBefore, PayStates: map[string]PayState{}}
	for hsh, p := range w.LN.Payments {
		sm.PayStates[hsh] = p.State
	}
	w.Sent = append(w.Sent, sm)
	w.mu.Unlock()
	if fk == FaultBefore {
		return ErrInjected
	}
	if m.p.point("msg.Send", "exit", fmt.Sprintf("%d", messageType)) {
		return ErrDead
	}
	if fk == FaultAfter {
		return ErrInjected
	}
	return nil
}

func (m *Messenger) AddMessageHandler(f func(peerId string, msgType string, payload []byte) error) {
	w := m.p.N.W
	w.mu.Lock()
	defer w.mu.Unlock()
	if m.p.dead {
		return
	}
	m.p.N.handler = f
}

// Manager is a recording swap.MessengerManager with the semantics of
// messages.Manager but without starting the retransmission goroutine's clock:
// the StoppableMessenger it is given is the real RedundantMessenger, which the
// swap code starts itself; tests that need to own its clock use the real
// messages.Manager plus hook H6 instead.
type Manager struct {
	p       *Proc
	Senders map[string]messages.StoppableMessenger
	Added   []string
	Removed []string
}

func (m *Manager) AddSender(id string, messenger messages.StoppableMessenger) error {
	if m.p.point("mgr.AddSender", "enter", "") {
		return ErrDead
	}
	w := m.p.N.W
	w.mu.Lock()
	defer w.mu.Unlock()
	if _, ok := m.Senders[id]; ok {
		return messages.ErrAlreadyHasASender(id)
	}
	m.Senders[id] = messenger
	m.Added = append(m.Added, id)
	return nil
}

func (m *Manager) RemoveSender(id string) {
	if m.p.point("mgr.RemoveSender", "enter", "") {
		return
	}
	w := m.p.N.W
	w.mu.Lock()
	s, ok := m.Senders[id]
	delete(m.Senders, id)
	m.Removed = append(m.Removed, id)
	w.mu.Unlock()
	if ok {
		s.Stop()
	}
}

// stopAll stops every retransmitter (process death).
func (m *Manager) stopAll() {
	for id, s := range m.Senders {
		s.Stop()
		delete(m.Senders, id)
	}
}
