// Package sim is the simulated world around real peerswap services: chains,
// lightning network, peer-to-peer messages, wallets, watchers, a store
// decorator, crash/fault injection and the trace of all boundary calls.
package sim

import (
	"errors"
	"fmt"
	"os"
	"runtime"
	"runtime/debug"
	"strings"
	"sync"
	"sync/atomic"
	"time"
)

// ErrDead is returned by every fake that belongs to a crashed process.
var ErrDead = errors.New("sim: process is dead")

// ErrInjected is the error returned by an injected service fault.
var ErrInjected = errors.New("sim: injected service failure")

// TraceEntry is one boundary crossing between the code under test and the world.
type TraceEntry struct {
	Idx   int
	Node  string
	Epoch int
	Call  string
	Phase string // "enter" (before the effect) or "exit" (after the effect)
	Info  string
}

func (e TraceEntry) String() string {
	return fmt.Sprintf("#%d %s/e%d %s.%s %s", e.Idx, e.Node, e.Epoch, e.Call, e.Phase, e.Info)
}

// FaultKind says how an injected fault manifests.
type FaultKind int

const (
	FaultNone   FaultKind = iota
	FaultBefore           // error, no effect
	FaultAfter            // effect happened, but the caller gets an error (reply lost)
)

// World owns everything shared between nodes.
type World struct {
	mu      sync.Mutex
	Dir     string
	Chains  map[string]*Chain
	LN      *LNState
	Nodes   map[string]*Node
	Trace   []TraceEntry
	Sent    []*SentMsg
	CrashAt int // trace index at which the calling process crashes; -1 = never
	// CrashOn crashes the calling process at the next boundary "call:phase" (optionally only on CrashOnNode).
	CrashOn     string
	CrashOnNode string
	// ParkOn parks the calling goroutine at the next boundary "call:phase" (optionally only on ParkOnNode);
	// Parked is closed when that happens, Release lets it go on.
	ParkOn      string
	ParkOnNode  string
	Parked      chan struct{}
	parkRelease chan struct{}
	crashed     chan *Proc
	released    chan struct{}
	relOnce     sync.Once
	nonce       uint64
	Notes       []string
	Panics      []string // panics raised by the code under test inside a step
	// Hangs: a step (one call into the node) that did not return within StepWatchdog although no fake
	// was holding it - the code under test blocks itself. Later steps of a hung world are skipped.
	Hangs     []string
	hangMu    sync.Mutex
	lateHangs []string

	delivered map[int]int
	dropped   map[int]bool
}

// NewWorld creates an empty world with a bitcoin and a liquid chain.
func NewWorld() *World {
	dir, err := os.MkdirTemp("", "psim")
	if err != nil {
		panic(err)
	}
	w := &World{
		Dir:      dir,
		Chains:   map[string]*Chain{},
		Nodes:    map[string]*Node{},
		CrashAt:  -1,
		crashed:  make(chan *Proc, 16),
		released: make(chan struct{}),
	}
	w.Chains["btc"] = newChain("btc", 700_000)
	w.Chains["lbtc"] = newChain("lbtc", 2_000_000)
	w.LN = newLNState(w)
	return w
}

// Close releases parked goroutines of crashed processes (they unwind against
// inert fakes), closes the databases and removes the scratch directory.
func (w *World) Close() {
	w.relOnce.Do(func() { close(w.released) })
	for _, n := range w.Nodes {
		n.close()
	}
	os.RemoveAll(w.Dir)
}

func (w *World) nextNonce() uint64 {
	w.nonce++
	return w.nonce
}

// Notef appends a line to the world log (dumped on failure by tests).
func (w *World) Notef(format string, a ...interface{}) {
	w.mu.Lock()
	defer w.mu.Unlock()
	w.Notes = append(w.Notes, fmt.Sprintf(format, a...))
}

// TraceLen returns the current number of trace entries.
func (w *World) TraceLen() int {
	w.mu.Lock()
	defer w.mu.Unlock()
	return len(w.Trace)
}

// TraceCopy returns a copy of the trace.
func (w *World) TraceCopy() []TraceEntry {
	w.mu.Lock()
	defer w.mu.Unlock()
	return append([]TraceEntry{}, w.Trace...)
}

// Proc is one incarnation (process) of a node. All fakes handed to a
// SwapService belong to exactly one Proc.
type Proc struct {
	N     *Node
	Epoch int
	dead  bool
	eager sync.WaitGroup // callbacks the fakes fired on their own goroutines (Node.Eager)
}

// eagerly runs a back-end callback the way the real back-ends do when the awaited event has already
// happened at registration time: at once, on its own goroutine, concurrently with the registering call.
// The step that contains the registration waits for it before it returns to the test.
func (p *Proc) eagerly(fn func()) {
	p.eager.Add(1)
	returned := make(chan struct{})
	defer func() {
		// the adversarial schedule, made deterministic: the callback gets ahead of the registering call.
		// If it cannot finish (it waits for a lock the registering call holds) the call goes on after a
		// moment and the callback completes later.
		select {
		case <-returned:
		case <-time.After(20 * time.Millisecond):
		}
	}()
	go func() {
		defer close(returned)
		defer p.eager.Done()
		defer func() {
			if r := recover(); r != nil {
				w := p.N.W
				w.mu.Lock()
				w.Panics = append(w.Panics, fmt.Sprintf("%v\n%s", r, debug.Stack()))
				w.mu.Unlock()
			}
		}()
		fn()
	}()
}

// point records a boundary crossing. It returns true when the caller belongs
// to a dead process (or just died here): the fake must then do nothing and
// return ErrDead. A crashing goroutine is parked until World.Close.
func (p *Proc) point(call, phase, info string) bool {
	w := p.N.W
	w.mu.Lock()
	if p.dead {
		w.mu.Unlock()
		<-w.released
		return true
	}
	idx := len(w.Trace)
	w.Trace = append(w.Trace, TraceEntry{Idx: idx, Node: p.N.Name, Epoch: p.Epoch, Call: call, Phase: phase, Info: info})
	if w.ParkOn != "" && w.ParkOn == call+":"+phase && (w.ParkOnNode == "" || w.ParkOnNode == p.N.Name) {
		// a scheduling point chosen by the test: the calling goroutine waits here (holding whatever
		// locks the code under test holds) until the test releases it
		w.ParkOn = ""
		rel := make(chan struct{})
		w.parkRelease = rel
		parked := w.Parked
		w.mu.Unlock()
		if parked != nil {
			close(parked)
		}
		<-rel
		w.mu.Lock()
	}
	if w.CrashAt == idx || (w.CrashOn != "" && w.CrashOn == call+":"+phase && (w.CrashOnNode == "" || w.CrashOnNode == p.N.Name)) {
		p.dead = true
		w.CrashAt = -1
		w.CrashOn = ""
		w.mu.Unlock()
		w.crashed <- p
		<-w.released
		return true
	}
	w.mu.Unlock()
	return false
}

// Dead reports whether the process has crashed.
func (p *Proc) Dead() bool {
	p.N.W.mu.Lock()
	defer p.N.W.mu.Unlock()
	return p.dead
}

// fault consumes the next planned fault for call (FaultNone if none planned).
func (p *Proc) fault(call string) FaultKind {
	w := p.N.W
	w.mu.Lock()
	defer w.mu.Unlock()
	q := p.N.Faults[call]
	if len(q) == 0 {
		return FaultNone
	}
	k := q[0]
	p.N.Faults[call] = q[1:]
	if k != FaultNone {
		p.N.FaultsFired = append(p.N.FaultsFired, fmt.Sprintf("%s:%d@%d", call, k, len(w.Trace)))
	}
	return k
}

// Step runs fn (a call into the node's real service) on its own goroutine and
// waits until it returns or the node's process crashes inside it. It returns
// true if the process crashed.
func (w *World) Step(n *Node, fn func()) (crashed bool) {
	p := n.Proc
	if p == nil || p.Dead() {
		return true
	}
	w.mu.Lock()
	hung := len(w.Hangs) > 0
	w.mu.Unlock()
	if hung {
		return false
	}
	done := make(chan struct{})
	go func() {
		defer close(done)
		defer func() {
			if r := recover(); r != nil {
				w.mu.Lock()
				w.Panics = append(w.Panics, fmt.Sprintf("%v\n%s", r, debug.Stack()))
				w.mu.Unlock()
			}
		}()
		fn()
	}()
	select {
	case <-done:
		if n.Eager {
			// callbacks fired by the fakes during this step run to their end (or to a crash) first
			idle := make(chan struct{})
			go func() { p.eager.Wait(); close(idle) }()
			select {
			case <-idle:
			case <-w.crashed:
				return true
			case <-time.After(currentWatchdog()):
				w.noteHang("a callback fired at registration time never returned")
			}
		}
		// a crash may have happened on a helper goroutine that fn did not wait for
		select {
		case cp := <-w.crashed:
			_ = cp
			return true
		default:
		}
		return p.Dead()
	case <-w.crashed:
		return true
	case <-time.After(currentWatchdog()):
	}
	// The step is overdue. It is reported as a hang only if its goroutine is parked on a lock, channel or
	// wait group (not merely starved of CPU on a busy machine): look at it a few more times.
	for tries := 0; ; tries++ {
		state, dump := stepGoroutineState()
		blocked := strings.Contains(state, "semacquire") || strings.Contains(state, "chan receive") || strings.Contains(state, "chan send") ||
			strings.Contains(state, "select") || strings.Contains(state, "sync.") || strings.Contains(state, "Lock")
		if blocked || tries >= 12 {
			hangSeen.Store(true)
			w.mu.Lock()
			w.Hangs = append(w.Hangs, "step goroutine state: "+state+"\n"+dump)
			w.mu.Unlock()
			return false
		}
		select {
		case <-done:
			return p.Dead()
		case <-w.crashed:
			return true
		case <-time.After(10 * time.Second):
		}
	}
}

// Release lets a goroutine parked through ParkOn continue.
func (w *World) Release() {
	w.mu.Lock()
	rel := w.parkRelease
	w.parkRelease = nil
	w.mu.Unlock()
	if rel != nil {
		close(rel)
	}
}

// noteHang records a hang observed outside a step (callable with or without the world lock held).
func (w *World) noteHang(msg string) {
	hangSeen.Store(true)
	w.hangMu.Lock()
	w.lateHangs = append(w.lateHangs, msg)
	w.hangMu.Unlock()
}

// AllHangs returns every recorded hang.
func (w *World) AllHangs() []string {
	w.mu.Lock()
	out := append([]string{}, w.Hangs...)
	w.mu.Unlock()
	w.hangMu.Lock()
	out = append(out, w.lateHangs...)
	w.hangMu.Unlock()
	return out
}

// hangSeen: once a hang was confirmed in this process, later cases (rapid re-runs the failing case many
// times while shrinking it) use a short watchdog.
var hangSeen atomic.Bool

func currentWatchdog() time.Duration {
	if hangSeen.Load() {
		return 1500 * time.Millisecond
	}
	return StepWatchdog
}

// stepGoroutineState returns the scheduler state of the goroutine that runs the current step's call and a
// dump of the goroutines that are inside the code under test.
func stepGoroutineState() (string, string) {
	buf := make([]byte, 4<<20)
	nb := runtime.Stack(buf, true)
	state := "unknown"
	var keep []string
	for _, g := range strings.Split(string(buf[:nb]), "\n\n") {
		if strings.Contains(g, "sim.(*World).Step.func1") && !strings.Contains(g, "sim.(*Proc).point") {
			if i, j := strings.Index(g, "["), strings.Index(g, "]"); i >= 0 && j > i {
				state = g[i+1 : j]
			}
		}
		if strings.Contains(g, "peerswap/") && !strings.Contains(g, "sim.(*World).Step(") {
			l := strings.Split(g, "\n")
			if len(l) > 16 {
				l = l[:16]
			}
			keep = append(keep, strings.Join(l, "\n"))
		}
	}
	return state, strings.Join(keep, "\n\n")
}

// StepWatchdog bounds one call into a node. Every fake answers at once (a slow payment sleeps
// SlowPayDelay), so a step that is still running after this long is blocked inside the code under test.
var StepWatchdog = 15 * time.Second
