package sim

import (
	"encoding/json"

	"github.com/elementsproject/peerswap/swap"
)

// StoreWrite is one committed write of a swap record.
type StoreWrite struct {
	TraceIdx int
	Epoch    int
	SwapId   string
	State    string
	JSON     []byte // the record as re-read from the real store after the write
}

// RecStore decorates the real bbolt store: boundary points before and after
// every write (crash points), fault injection, and a log of committed records.
type RecStore struct {
	p     *Proc
	inner swap.Store
}

var _ swap.Store = (*RecStore)(nil)

func (s *RecStore) UpdateData(data *swap.SwapStateMachine) error {
	id := data.SwapId.String()
	if s.p.point("store.UpdateData", "enter", string(data.Current)) {
		return ErrDead
	}
	if s.p.fault("store.UpdateData") == FaultBefore {
		return ErrInjected
	}
	err := s.inner.UpdateData(data)
	if err != nil {
		return err
	}
	re, rerr := s.inner.GetData(id)
	var js []byte
	st := ""
	if rerr == nil {
		js, _ = json.Marshal(re)
		st = string(re.Current)
	}
	w := s.p.N.W
	w.mu.Lock()
	s.p.N.Writes = append(s.p.N.Writes, &StoreWrite{TraceIdx: len(w.Trace) - 1, Epoch: s.p.Epoch, SwapId: id, State: st, JSON: js})
	w.mu.Unlock()
	if s.p.point("store.UpdateData", "exit", st) {
		return ErrDead
	}
	return nil
}

func (s *RecStore) GetData(id string) (*swap.SwapStateMachine, error) {
	if s.p.Dead() {
		return nil, ErrDead
	}
	return s.inner.GetData(id)
}

func (s *RecStore) ListAll() ([]*swap.SwapStateMachine, error) {
	if s.p.Dead() {
		return nil, ErrDead
	}
	return s.inner.ListAll()
}

func (s *RecStore) ListAllByPeer(peer string) ([]*swap.SwapStateMachine, error) {
	if s.p.Dead() {
		return nil, ErrDead
	}
	return s.inner.ListAllByPeer(peer)
}
