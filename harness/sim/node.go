package sim

import (
	"crypto/sha256"
	"encoding/hex"
	"fmt"
	"os"
	"path/filepath"
	"sort"
	"strconv"

	"github.com/btcsuite/btcd/btcec/v2"
	"github.com/elementsproject/peerswap/messages"
	"github.com/elementsproject/peerswap/policy"
	"github.com/elementsproject/peerswap/premium"
	"github.com/elementsproject/peerswap/swap"
	"go.etcd.io/bbolt"
)

// Node is one peerswap node: persistent state (bbolt file, policy file) plus
// the current process (Proc) with the real SwapService wired to the fakes.
type Node struct {
	W    *World
	Name string
	Id   string // 33-byte compressed pubkey, hex
	Key  *btcec.PrivateKey

	LNDStyle     bool
	BtcEnabled   bool
	LbtcEnabled  bool
	OpeningFee   uint64
	Balance      map[string]uint64
	ChangeBefore int // outputs the token wallet places before the swap output

	dbPath     string
	DB         *bbolt.DB
	PolicyPath string

	// current process
	Proc           *Proc
	Svc            *swap.SwapService
	Timeouts       *swap.VerifTimeouts
	Policy         *policy.Policy
	Premium        *premium.Setting
	Mgr            *Manager
	RealMgr        *messages.Manager
	UseRealManager bool
	BtcNetwork     string // network name the bitcoin wallet reports ("" = regtest)
	tickMgr        *tickManager
	handler        func(peerId string, msgType string, payload []byte) error
	payCb          func(swapId string, invoiceType swap.InvoiceType)
	confCb         map[string]func(swapId string, txHex string, err error) error
	csvCb          map[string]func(swapId string) error

	// plans (consumed by the fakes)
	Faults      map[string][]FaultKind
	FaultsFired []string
	// Eager: a watch or payment notifier registered for an event that has already happened is called
	// back at once on its own goroutine (what the real watchers do), not when the test next polls.
	Eager            bool
	PayPlan          map[string][]PayOutcome
	RecoverPlan      []bool
	MineOnHeightCall map[string][]uint32
	// HeightLag: per chain, how far behind the true tip the next height queries answer (a back-end that
	// is still catching up, a lagging electrum server, a reorganisation); 0 entries answer the truth
	HeightLag map[string][]uint32

	// observations
	PayCalls     []*PayCall
	RecoverCalls int
	InvoicesMade []string
	Notifiers    map[string]*notifier
	Writes       []*StoreWrite
	Openings     []*Opening
	Spends       []*Spend
	ConfWaits    map[string][]*ConfWait
	CsvWaits     map[string][]*CsvWait
	HeightCalls  []HeightCall
	Tickers      []*TickSender
	Epochs       int

	// WalletFactory lets a test plug real on-chain adapters in instead of the token wallet.
	WalletFactory func(p *Proc, chain string) (swap.Wallet, swap.Validator, swap.TxWatcher)
}

// KeyFromName derives a deterministic key pair from a label.
func KeyFromName(name string) *btcec.PrivateKey {
	h := sha256.Sum256([]byte("sim-node-" + name))
	h[0] &= 0x7f
	k, _ := btcec.PrivKeyFromBytes(h[:])
	return k
}

// AddNode creates a node (not yet booted).
func (w *World) AddNode(name string) *Node {
	k := KeyFromName(name)
	n := &Node{W: w, Name: name, Key: k, Id: hex.EncodeToString(k.PubKey().SerializeCompressed()),
		BtcEnabled: true, LbtcEnabled: true, OpeningFee: 1000,
		Balance:          map[string]uint64{"btc": 10_0000_0000, "lbtc": 10_0000_0000},
		Faults:           map[string][]FaultKind{},
		PayPlan:          map[string][]PayOutcome{},
		MineOnHeightCall: map[string][]uint32{},
		HeightLag:        map[string][]uint32{},
		Notifiers:        map[string]*notifier{},
		ConfWaits:        map[string][]*ConfWait{},
		CsvWaits:         map[string][]*CsvWait{},
		confCb:           map[string]func(string, string, error) error{},
		csvCb:            map[string]func(string) error{},
	}
	n.dbPath = filepath.Join(w.Dir, name+".db")
	n.PolicyPath = filepath.Join(w.Dir, name+".policy.conf")
	_ = os.WriteFile(n.PolicyPath, []byte("accept_all_peers=true\nmin_swap_amount_msat=1000\n"), 0o644)
	w.Nodes[name] = n
	return n
}

// WritePolicy replaces the policy file (before Boot).
func (n *Node) WritePolicy(content string) {
	_ = os.WriteFile(n.PolicyPath, []byte(content), 0o644)
}

func (n *Node) close() {
	if n.Mgr != nil {
		n.W.mu.Lock()
		n.Mgr.stopAll()
		n.W.mu.Unlock()
	}
	if n.tickMgr != nil {
		n.W.mu.Lock()
		n.tickMgr.stopAll()
		n.W.mu.Unlock()
	}
	if n.DB != nil {
		n.DB.Close()
		n.DB = nil
	}
}

// Boot starts a new process of the node: fresh fakes, fresh SwapService over
// the persistent database and policy file, Start() — but not RecoverSwaps().
func (n *Node) Boot() error {
	w := n.W
	if n.DB == nil {
		db, err := bbolt.Open(n.dbPath, 0o600, &bbolt.Options{NoSync: true, NoFreelistSync: true})
		if err != nil {
			return err
		}
		n.DB = db
	}
	w.mu.Lock()
	if n.Proc != nil {
		n.Proc.dead = true
		if n.Mgr != nil {
			n.Mgr.stopAll()
		}
		if n.tickMgr != nil {
			n.tickMgr.stopAll()
		}
	}
	n.Epochs++
	p := &Proc{N: n, Epoch: n.Epochs}
	n.Proc = p
	n.handler, n.payCb = nil, nil
	n.confCb = map[string]func(string, string, error) error{}
	n.csvCb = map[string]func(string) error{}
	// registrations of the dead process are gone (they lived in memory)
	n.ConfWaits = map[string][]*ConfWait{}
	n.CsvWaits = map[string][]*CsvWait{}
	n.Notifiers = map[string]*notifier{}
	// ... and so are the notifications the lightning node had queued for its subscriptions
	var keep []Notif
	for _, nt := range w.LN.Notifs {
		if nt.Node != n.Name {
			keep = append(keep, nt)
		}
	}
	w.LN.Notifs = keep
	w.mu.Unlock()

	store, err := swap.NewBboltStore(n.DB)
	if err != nil {
		return err
	}
	rss, err := swap.NewRequestedSwapsStore(n.DB)
	if err != nil {
		return err
	}
	pol, err := policy.CreateFromFile(n.PolicyPath)
	if err != nil {
		return err
	}
	ps, err := premium.NewSetting(n.DB)
	if err != nil {
		return err
	}
	n.Policy, n.Premium = pol, ps
	mk := func(chain string) (swap.Wallet, swap.Validator, swap.TxWatcher) {
		if n.WalletFactory != nil {
			return n.WalletFactory(p, chain)
		}
		tw := &TokenWallet{p: p, chain: chain}
		return tw, tw, &TokenWatcher{p: p, chain: chain}
	}
	bw, bv, bt := mk("btc")
	lw, lv, lt := mk("lbtc")
	var mgr swap.MessengerManager
	n.Mgr = &Manager{p: p, Senders: map[string]messages.StoppableMessenger{}}
	mgr = n.Mgr
	if n.UseRealManager {
		n.RealMgr = messages.NewManager()
		n.tickMgr = &tickManager{p: p, inner: n.RealMgr, live: map[string]messages.StoppableMessenger{}}
		mgr = n.tickMgr
	}
	services := swap.NewSwapServices(&RecStore{p: p, inner: store}, rss, &NodeLN{p: p}, &Messenger{p: p}, mgr, pol,
		n.BtcEnabled, bw, bv, bt, n.LbtcEnabled, lw, lv, lt, ps)
	n.Svc = swap.NewSwapService(services)
	if err := n.Svc.Start(); err != nil {
		return err
	}
	n.Timeouts = n.Svc.VerifUseTimeouts()
	return nil
}

// Kill marks the current process dead (a crash between two steps).
func (n *Node) Kill() {
	n.W.mu.Lock()
	defer n.W.mu.Unlock()
	if n.Proc != nil {
		n.Proc.dead = true
	}
	if n.Mgr != nil {
		n.Mgr.stopAll()
	}
	if n.tickMgr != nil {
		n.tickMgr.stopAll()
	}
}

// Recover runs RecoverSwaps as a step; returns true if the process crashed in it.
func (n *Node) Recover() bool {
	return n.W.Step(n, func() { _ = n.Svc.RecoverSwaps() })
}

// Deliver hands a peer message to the node's registered handler.
func (n *Node) Deliver(fromPeerId string, msgType int, payload []byte) (crashed bool, err error) {
	h := n.handler
	if h == nil {
		return false, fmt.Errorf("no handler")
	}
	ts := strconv.FormatInt(int64(msgType), 16)
	crashed = n.W.Step(n, func() { err = h(fromPeerId, ts, payload) })
	return
}

// DeliverRaw hands an arbitrary type string / payload to the handler.
func (n *Node) DeliverRaw(fromPeerId, typeString string, payload []byte) (crashed bool, err error) {
	h := n.handler
	if h == nil {
		return false, fmt.Errorf("no handler")
	}
	crashed = n.W.Step(n, func() { err = h(fromPeerId, typeString, payload) })
	return
}

// WatcherEvent is a callback the watcher contract allows right now.
type WatcherEvent struct {
	Chain  string
	Kind   string // confirmed|conf-failed|csv
	SwapId string
	TxHex  string
	conf   *ConfWait
	csv    *CsvWait
}

// DueWatcherEvents lists the callbacks that are due for the current process.
func (n *Node) DueWatcherEvents() []WatcherEvent {
	w := n.W
	w.mu.Lock()
	defer w.mu.Unlock()
	var evs []WatcherEvent
	chains := []string{"btc", "lbtc"}
	for _, cn := range chains {
		c := w.Chains[cn]
		for _, cw := range n.ConfWaits[cn] {
			if cw.Done || cw.Epoch != n.Proc.Epoch {
				continue
			}
			if uint64(c.Height) >= uint64(cw.StartHeight)+uint64(cw.Window) {
				evs = append(evs, WatcherEvent{Chain: cn, Kind: "conf-failed", SwapId: cw.SwapId, conf: cw})
				continue
			}
			tx := c.Txs[cw.TxID]
			if tx != nil && c.Confs(cw.TxID) >= RequiredConfs(cn) {
				evs = append(evs, WatcherEvent{Chain: cn, Kind: "confirmed", SwapId: cw.SwapId, TxHex: tx.Hex, conf: cw})
			}
		}
		for _, cs := range n.CsvWaits[cn] {
			if cs.Done || cs.Epoch != n.Proc.Epoch {
				continue
			}
			tx := c.Txs[cs.TxID]
			if tx == nil || int(cs.Vout) >= len(tx.Outs) || tx.Outs[cs.Vout].SpentBy != "" {
				continue
			}
			if c.Confs(cs.TxID) >= cs.Csv {
				evs = append(evs, WatcherEvent{Chain: cn, Kind: "csv", SwapId: cs.SwapId, csv: cs})
			}
		}
	}
	sort.SliceStable(evs, func(i, j int) bool { return evs[i].SwapId+evs[i].Kind < evs[j].SwapId+evs[j].Kind })
	return evs
}

// DeliverWatcherEvent calls the service's watcher callback for ev.
func (n *Node) DeliverWatcherEvent(ev WatcherEvent) (crashed bool, err error) {
	w := n.W
	w.mu.Lock()
	ccb := n.confCb[ev.Chain]
	vcb := n.csvCb[ev.Chain]
	w.mu.Unlock()
	switch ev.Kind {
	case "confirmed":
		if ccb == nil {
			return false, fmt.Errorf("no callback")
		}
		ev.conf.Done = true
		crashed = w.Step(n, func() { err = ccb(ev.SwapId, ev.TxHex, nil) })
	case "conf-failed":
		if ccb == nil {
			return false, fmt.Errorf("no callback")
		}
		ev.conf.Done = true
		crashed = w.Step(n, func() { err = ccb(ev.SwapId, "", fmt.Errorf("exceeded csv limit")) })
	case "csv":
		if vcb == nil {
			return false, fmt.Errorf("no callback")
		}
		crashed = w.Step(n, func() { err = vcb(ev.SwapId) })
		if err == nil && !crashed {
			ev.csv.Done = true
		}
	}
	return
}

// DuePaymentNotifs returns (and removes) the queued payment notifications for this node.
func (n *Node) TakePaymentNotifs() []Notif {
	w := n.W
	w.mu.Lock()
	defer w.mu.Unlock()
	var mine, rest []Notif
	for _, nt := range w.LN.Notifs {
		if nt.Node == n.Name {
			mine = append(mine, nt)
		} else {
			rest = append(rest, nt)
		}
	}
	w.LN.Notifs = rest
	return mine
}

// DeliverPayment calls the service's payment callback.
func (n *Node) DeliverPayment(nt Notif) (crashed bool) {
	cb := n.payCb
	if cb == nil {
		return false
	}
	return n.W.Step(n, func() { cb(nt.SwapId, nt.Type) })
}

// FireTimeout fires the i-th armed time-out of the current process.
func (n *Node) FireTimeout(i int) (fired, crashed bool) {
	ts := n.Timeouts.Snapshot()
	if i < 0 || i >= len(ts) {
		return false, false
	}
	crashed = n.W.Step(n, func() { fired = ts[i].Fire() })
	return
}

// Swaps returns all persisted swaps (read directly from the real store).
func (n *Node) Swaps() []*swap.SwapStateMachine {
	st, err := swap.NewBboltStore(n.DB)
	if err != nil {
		return nil
	}
	l, _ := st.ListAll()
	sort.Slice(l, func(i, j int) bool { return l[i].SwapId.String() < l[j].SwapId.String() })
	return l
}

// SentBy returns the messages this node handed to the transport, in order.
func (n *Node) SentBy() []*SentMsg {
	w := n.W
	w.mu.Lock()
	defer w.mu.Unlock()
	var out []*SentMsg
	for _, m := range w.Sent {
		if m.From == n.Name {
			out = append(out, m)
		}
	}
	return out
}

// Entry returns the callbacks the service registered, read under the world lock
// (for tests that call them from several goroutines).
func (n *Node) Entry() (handler func(string, string, []byte) error, pay func(string, swap.InvoiceType),
	conf map[string]func(string, string, error) error, csv map[string]func(string) error) {
	n.W.mu.Lock()
	defer n.W.mu.Unlock()
	conf = map[string]func(string, string, error) error{}
	csv = map[string]func(string) error{}
	for k, v := range n.confCb {
		conf[k] = v
	}
	for k, v := range n.csvCb {
		csv[k] = v
	}
	return n.handler, n.payCb, conf, csv
}

// SentCount returns the number of messages handed to the transport so far.
func (w *World) SentCount() int {
	w.mu.Lock()
	defer w.mu.Unlock()
	return len(w.Sent)
}

// PayCallsCopy returns a snapshot of the node's payment calls (values, taken under the world lock).
func (n *Node) PayCallsCopy() []PayCall {
	n.W.mu.Lock()
	defer n.W.mu.Unlock()
	out := make([]PayCall, 0, len(n.PayCalls))
	for _, pc := range n.PayCalls {
		out = append(out, *pc)
	}
	return out
}
