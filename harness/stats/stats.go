// Package stats collects per-run coverage counters for the evidence files.
package stats

import (
	"crypto/sha256"
	"encoding/hex"
	"encoding/json"
	"fmt"
	"os"
	"path/filepath"
	"sort"
	"sync"
)

// Collector accumulates what one test function explored.
type Collector struct {
	mu          sync.Mutex
	Name        string            `json:"name"`
	Evaluations int               `json:"evaluations"`
	NonTrivial  int               `json:"nontrivial"`
	Distinct    map[string]bool   `json:"-"`
	DistinctNT  []string          `json:"distinct_nt_hashes"`
	Classes     map[string]int    `json:"classes"`
	Samples     []interface{}     `json:"samples"`
	Known       map[string]int    `json:"known_hits"`
	Extra       map[string]int    `json:"extra"`
	Notes       map[string]string `json:"notes"`
	maxSamples  int
}

var (
	regMu    sync.Mutex
	registry = map[string]*Collector{}
)

// Get returns the collector for a test name (created on first use).
func Get(name string) *Collector {
	regMu.Lock()
	defer regMu.Unlock()
	if c, ok := registry[name]; ok {
		return c
	}
	c := &Collector{Name: name, Distinct: map[string]bool{}, Classes: map[string]int{},
		Known: map[string]int{}, Extra: map[string]int{}, Notes: map[string]string{}, maxSamples: 6}
	registry[name] = c
	return c
}

// Case records one evaluated case. key is the canonical description of the
// case (hashed for distinctness); sample is stored for the first few
// non-trivial cases.
func (c *Collector) Case(key string, nontrivial bool, sample interface{}, classes ...string) {
	c.mu.Lock()
	defer c.mu.Unlock()
	c.Evaluations++
	for _, cl := range classes {
		if cl != "" {
			c.Classes[cl]++
		}
	}
	if !nontrivial {
		return
	}
	c.NonTrivial++
	h := sha256.Sum256([]byte(key))
	hs := hex.EncodeToString(h[:8])
	if c.Distinct[hs] {
		return
	}
	c.Distinct[hs] = true
	c.DistinctNT = append(c.DistinctNT, hs)
	if len(c.Samples) < c.maxSamples && sample != nil {
		c.Samples = append(c.Samples, sample)
	}
}

// Class bumps a class counter outside Case.
func (c *Collector) Class(cl string) {
	c.mu.Lock()
	defer c.mu.Unlock()
	c.Classes[cl]++
}

func (c *Collector) Add(k string, n int) {
	c.mu.Lock()
	defer c.mu.Unlock()
	c.Extra[k] += n
}

func (c *Collector) Note(k, v string) {
	c.mu.Lock()
	defer c.mu.Unlock()
	c.Notes[k] = v
}

// KnownHit records that a violation matching a listed known finding was
// observed (and the case was excluded from further checking).
func (c *Collector) KnownHit(key string) {
	c.mu.Lock()
	defer c.mu.Unlock()
	c.Known[key]++
}

// Flush writes every collector to $VERIF_STATS_DIR/<name>.<pid>.json.
func Flush() {
	dir := os.Getenv("VERIF_STATS_DIR")
	if dir == "" {
		return
	}
	_ = os.MkdirAll(dir, 0o755)
	regMu.Lock()
	defer regMu.Unlock()
	names := make([]string, 0, len(registry))
	for n := range registry {
		names = append(names, n)
	}
	sort.Strings(names)
	for _, n := range names {
		c := registry[n]
		c.mu.Lock()
		b, err := json.Marshal(c)
		c.mu.Unlock()
		if err != nil {
			fmt.Fprintf(os.Stderr, "stats: %v\n", err)
			continue
		}
		_ = os.WriteFile(filepath.Join(dir, fmt.Sprintf("%s.%d.json", n, os.Getpid())), b, 0o644)
	}
}
