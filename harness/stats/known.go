package stats

import (
	"fmt"
	"os"
	"strings"
	"sync"
)

var (
	knownOnce sync.Once
	knownSet  map[string]bool
)

func loadKnown() {
	knownSet = map[string]bool{}
	for _, k := range strings.Split(os.Getenv("VERIF_KNOWN"), ",") {
		k = strings.TrimSpace(k)
		if k != "" {
			knownSet[k] = true
		}
	}
}

// IsKnown reports whether key is a listed known finding (from VERIF_KNOWN,
// which the driver fills from known_findings.json; never written at run time).
func IsKnown(key string) bool {
	knownOnce.Do(loadKnown)
	if knownSet[key] {
		return true
	}
	// a listed key ending in '*' matches by prefix (used where the root-cause
	// marker is in the prefix and the suffix only names the state it surfaced in)
	for k := range knownSet {
		if strings.HasSuffix(k, "*") && strings.HasPrefix(key, strings.TrimSuffix(k, "*")) {
			return true
		}
	}
	return false
}

// Starved, when set by a test package, reports whether the current case was disturbed by CPU starvation
// (a shortened wall-clock budget of the code under test expired before the code could make its first
// attempt). Such a case proves nothing either way.
var Starved func() bool

// Fataler is the part of testing.T / rapid.T we need.
type Fataler interface {
	Fatalf(format string, args ...interface{})
	Logf(format string, args ...interface{})
}

// Violation reports a property violation with a root-cause key. If the key is a
// listed known finding the hit is counted and true is returned: the caller must
// stop checking this case (it is excluded from the search). Otherwise the test
// fails with a line the driver can parse.
func (c *Collector) Violation(t Fataler, key string, format string, args ...interface{}) bool {
	if IsKnown(key) {
		c.KnownHit(key)
		return true
	}
	if Starved != nil && Starved() {
		// the machine was too busy for the (shortened) time budgets of the code under test during this
		// case: whatever was observed is a time budget hit, not behaviour - the case is inconclusive
		c.Class("inconclusive:starved-case")
		if sk, ok := t.(interface{ Skip(args ...any) }); ok {
			sk.Skip("inconclusive: a wall-clock budget of the code under test ran out before its first attempt (busy machine)")
		}
		return true
	}
	t.Fatalf("VKEY[%s] %s", key, fmt.Sprintf(format, args...))
	return true
}
