package realswap

import (
	"bytes"
	"crypto/sha256"
	"encoding/hex"
	"encoding/json"
	"fmt"
	"testing"

	"github.com/btcsuite/btcd/btcec/v2"
	"github.com/btcsuite/btcd/chaincfg/chainhash"
	"github.com/btcsuite/btcd/wire"
	"github.com/elementsproject/peerswap/swap"
	"github.com/vulpemventures/go-elements/transaction"
	"pgregory.net/rapid"

	"verifharness/oracle/scriptpolicy"
	"verifharness/realtx"
	"verifharness/sim"
	"verifharness/stats"
)

// openingSpec is what the scripted maker broadcasts and announces.
type openingSpec struct {
	Deviation string
	TxID      string
	TxHex     string
	NOuts     int
	Vout      uint32
	BlindKey  string
	// ground truth, recomputed by the oracle from the transaction itself
}

var liquidDeviations = []string{"honest", "honest", "honest", "amount+1", "amount-1", "amount-1000", "other-asset", "forged-asset", "wrong-blinding-key", "no-proofs",
	"swapped-keys", "third-key", "other-hash", "other-csv", "wrong-vout", "duplicate-first-bad", "explicit-output", "explicit-other-asset", "explicit-other-asset", "explicit-other-asset", "unrelated-tx", "extra-outputs", "split-script-and-amount", "split-script-and-amount"}

var btcDeviations = []string{"honest", "honest", "honest", "amount+1", "amount-1", "amount-1000", "swapped-keys", "third-key", "other-hash", "other-csv", "wrong-vout",
	"duplicate-first-bad", "unrelated-tx", "extra-outputs", "equal-value-before", "split-script-and-amount", "split-script-and-amount"}

var invoiceDeviations = []string{"honest", "honest", "honest", "honest", "msat+1", "msat-1", "x1000", "div1000", "other-hash", "cltv"}

func TestC01TakerPaysOnlyValidatedOpening(t *testing.T) {
	col := stats.Get("C01.taker")
	rapid.Check(t, func(t *rapid.T) {
		sim.LogReset()
		sim.CaseStart(t)
		w := sim.NewWorld()
		defer w.Close()
		seed := rapid.StringMatching(`[a-z]{6}`).Draw(t, "seed")
		a := newRealNode(w, "alice", seed)
		m := w.AddNode("mallory")
		w.LN.AddChannel("300x3x0", a.N.Id, m.Id, 500_000_000_000, 500_000_000_000)
		chain := rapid.SampledFrom([]string{"btc", "lbtc"}).Draw(t, "chain")
		out := rapid.Bool().Draw(t, "swapOut")
		a.N.LNDStyle = rapid.Bool().Draw(t, "lnd")
		if err := a.N.Boot(); err != nil {
			t.Fatal(err)
		}
		r := realtx.NewRand(seed + "maker")
		makerKey, thirdKey, blindKey, otherBlind := r.Key(), r.Key(), r.Key(), r.Key()
		makerPub := makerKey.PubKey().SerializeCompressed()
		amount := rapid.Uint64Range(100_000, 5_000_000).Draw(t, "amount")
		premium := int64(0)
		asset, network := "", "regtest"
		csv := uint32(1008)
		required := uint32(3)
		if chain == "lbtc" {
			asset, network, csv, required = a.Liquid.GetAsset(), "", 10080, 2
		}
		// ---- negotiation ----
		var id, takerPubHex string
		if out {
			var sm *swap.SwapStateMachine
			var err error
			w.Step(a.N, func() { sm, err = a.N.Svc.SwapOut(m.Id, chain, "300x3x0", a.N.Id, amount, 100_000) })
			if err != nil {
				t.Fatalf("SwapOut: %v", err)
			}
			id = sm.SwapId.String()
			var rq swap.SwapOutRequestMessage
			_ = json.Unmarshal(lastOfType(a.N, mtSwapOutRequest).Payload, &rq)
			takerPubHex = rq.Pubkey
			premium = rapid.SampledFrom([]int64{0, 500, -300}).Draw(t, "premium")
			feePre := hex.EncodeToString(r.Bytes32())
			fh := sha256.Sum256(mustHex(feePre))
			feeInv := &sim.Invoice{Payee: m.Id, Hash: hex.EncodeToString(fh[:]), AmountMsat: 500_000, CLTV: 18, Expiry: 600, Label: "fee", Preimage: feePre, CreatedBy: "mallory"}
			agr, _ := json.Marshal(&swap.SwapOutAgreementMessage{ProtocolVersion: 7, SwapId: sm.SwapId, Pubkey: hex.EncodeToString(makerPub), Payreq: w.LN.RegisterInvoice(feeInv), Premium: premium})
			a.N.Deliver(m.Id, mtSwapOutAgreement, agr)
		} else {
			var idb [32]byte
			copy(idb[:], r.Bytes32())
			id = hex.EncodeToString(idb[:])
			sid, _ := swap.ParseSwapIdFromString(id)
			req, _ := json.Marshal(&swap.SwapInRequestMessage{ProtocolVersion: 7, SwapId: sid, Asset: asset, Network: network, Scid: "300x3x0", Amount: amount, Pubkey: hex.EncodeToString(makerPub), PremiumLimit: 1 << 40})
			a.N.Deliver(m.Id, mtSwapInRequest, req)
			ag := lastOfType(a.N, mtSwapInAgreement)
			if ag == nil {
				t.Fatalf("harness: no swap_in_agreement\n%s", sim.LogDump())
			}
			var agm swap.SwapInAgreementMessage
			_ = json.Unmarshal(ag.Payload, &agm)
			takerPubHex, premium = agm.Pubkey, agm.Premium
		}
		rec := findRec(a.N, id)
		if rec == nil || (rec.Current != swap.State_SwapOutSender_AwaitTxBroadcastedMessage && rec.Current != swap.State_SwapInReceiver_AwaitTxBroadcastedMessage) {
			t.Fatalf("harness: negotiation did not reach the waiting state\n%s", sim.LogDump())
		}
		takerPub := mustHex(takerPubHex)
		claimSat, openSat := amount, amount
		if out {
			claimSat = uint64(int64(amount) + premium)
		} else {
			openSat = uint64(int64(amount) + premium)
		}
		// ---- the invoice ----
		invDev := rapid.SampledFrom(invoiceDeviations).Draw(t, "invoiceDeviation")
		preimage := r.Bytes32()
		ph := sha256.Sum256(preimage)
		scriptHash := ph[:] // the hash locked in the script
		invHash := ph[:]
		invMsat := claimSat * 1000
		invCltv := int64(18)
		invPre := hex.EncodeToString(preimage)
		switch invDev {
		case "msat+1":
			invMsat++
		case "msat-1":
			invMsat--
		case "x1000":
			invMsat *= 1000
		case "div1000":
			invMsat /= 1000
		case "other-hash":
			op := r.Bytes32()
			oh := sha256.Sum256(op)
			invHash, invPre = oh[:], hex.EncodeToString(op)
		case "cltv":
			invCltv = rapid.SampledFrom([]int64{0, 29, 30, 40, 144, 503, 504, 505, 600}).Draw(t, "cltv")
		}
		payreq := w.LN.RegisterInvoice(&sim.Invoice{Payee: m.Id, Hash: hex.EncodeToString(invHash), AmountMsat: invMsat, CLTV: invCltv, Expiry: 3600, Label: "claim", Preimage: invPre, CreatedBy: "mallory"})
		// ---- the opening transaction ----
		var dev string
		spec := &openingSpec{}
		honestScript := realtx.P2WSH(scriptpolicy.Build(scriptpolicy.Params{Maker: makerPub, Taker: takerPub, Hash: scriptHash, CSV: csv}))
		altScript := func(mk, tk, h []byte, c uint32) []byte {
			return realtx.P2WSH(scriptpolicy.Build(scriptpolicy.Params{Maker: mk, Taker: tk, Hash: h, CSV: c}))
		}
		if chain == "lbtc" {
			dev = rapid.SampledFrom(liquidDeviations).Draw(t, "deviation")
			_, other32 := realtx.OtherAsset()
			swapOut := realtx.OutSpec{Script: honestScript, Value: openSat, BlindTo: blindKey.PubKey()}
			outs := []realtx.OutSpec{}
			before := rapid.IntRange(0, 2).Draw(t, "outsBefore")
			for i := 0; i < before; i++ {
				outs = append(outs, realtx.OutSpec{Script: []byte{0x00, 0x14, byte(i), 2, 3, 4, 5, 6, 7, 8, 9, 10, 11, 12, 13, 14, 15, 16, 17, 18, 19, 20}, Value: 33_000 + uint64(i), BlindTo: otherBlind.PubKey()})
			}
			announceVout := uint32(before)
			announceKey := blindKey
			var after []realtx.OutSpec
			switch dev {
			case "amount+1":
				swapOut.Value++
			case "amount-1":
				swapOut.Value--
			case "amount-1000":
				swapOut.Value -= 1000
			case "other-asset":
				swapOut.Asset32 = other32
			case "forged-asset":
				swapOut.ForgedAsset = other32
			case "wrong-blinding-key":
				swapOut.BlindTo = otherBlind.PubKey()
			case "no-proofs":
				swapOut.NoProofs = true
			case "swapped-keys":
				swapOut.Script = altScript(takerPub, makerPub, scriptHash, csv)
			case "third-key":
				swapOut.Script = altScript(thirdKey.PubKey().SerializeCompressed(), takerPub, scriptHash, csv)
			case "other-hash":
				swapOut.Script = altScript(makerPub, takerPub, r.Bytes32(), csv)
			case "other-csv":
				swapOut.Script = altScript(makerPub, takerPub, scriptHash, rapid.SampledFrom([]uint32{60, 1008, 10079, 1}).Draw(t, "otherCsv"))
			case "wrong-vout":
				announceVout = uint32(before) + 1
			case "duplicate-first-bad":
				bad := swapOut
				bad.Value = openSat - 5
				outs = append(outs, bad)
				announceVout = uint32(len(outs))
			case "explicit-output":
				swapOut.BlindTo = nil
			case "explicit-other-asset":
				swapOut.BlindTo, swapOut.Asset32 = nil, other32
			case "extra-outputs":
				outs = append(outs, realtx.OutSpec{Script: []byte{0x51}, Value: openSat, BlindTo: blindKey.PubKey()})
				announceVout = uint32(len(outs))
			case "split-script-and-amount":
				// the swap script on one output, the negotiated amount on another: no single output has both
				decoy := realtx.OutSpec{Script: []byte{0x00, 0x14, 8, 8, 8, 4, 5, 6, 7, 8, 9, 10, 11, 12, 13, 14, 15, 16, 17, 18, 19, 20}, Value: openSat, BlindTo: blindKey.PubKey()}
				swapOut.Value = rapid.SampledFrom([]uint64{330, 1000, openSat / 2, openSat - 1}).Draw(t, "splitValue")
				if rapid.Bool().Draw(t, "decoyFirst") {
					outs = append(outs, decoy)
					announceVout = uint32(len(outs)) - uint32(rapid.IntRange(0, 1).Draw(t, "announceDecoy"))
				} else {
					after = append(after, decoy)
					announceVout = uint32(len(outs)) + uint32(rapid.IntRange(0, 1).Draw(t, "announceDecoy"))
				}
			}
			outs = append(outs, swapOut)
			outs = append(outs, after...)
			outs = append(outs, realtx.OutSpec{Script: []byte{0x00, 0x14, 9, 9, 9, 4, 5, 6, 7, 8, 9, 10, 11, 12, 13, 14, 15, 16, 17, 18, 19, 20}, Value: 44_000, BlindTo: otherBlind.PubKey()}, realtx.OutSpec{Fee: true, Value: 260})
			tx, err := realtx.BuildTx(r, rapid.IntRange(1, 2).Draw(t, "inputs"), outs)
			if err != nil {
				t.Fatalf("build: %v", err)
			}
			h, _ := tx.ToHex()
			spec = &openingSpec{Deviation: dev, TxID: tx.TxHash().String(), TxHex: h, NOuts: len(tx.Outputs), Vout: announceVout, BlindKey: hex.EncodeToString(announceKey.Serialize())}
			if dev == "unrelated-tx" {
				utx, _ := realtx.BuildTx(r, 1, []realtx.OutSpec{{Script: []byte{0x51}, Value: openSat, BlindTo: blindKey.PubKey()}, {Fee: true, Value: 100}})
				uh, _ := utx.ToHex()
				spec.TxID, spec.TxHex, spec.NOuts, spec.Vout = utx.TxHash().String(), uh, 2, 0
			}
		} else {
			dev = rapid.SampledFrom(btcDeviations).Draw(t, "deviation")
			tx := wire.NewMsgTx(2)
			var ph chainhash.Hash
			copy(ph[:], r.Bytes32())
			tx.AddTxIn(wire.NewTxIn(wire.NewOutPoint(&ph, 0), nil, wire.TxWitness{r.Bytes32()}))
			before := rapid.IntRange(0, 2).Draw(t, "outsBefore")
			for i := 0; i < before; i++ {
				tx.AddTxOut(wire.NewTxOut(int64(33_000+i), []byte{0x00, 0x14, byte(i), 2, 3, 4, 5, 6, 7, 8, 9, 10, 11, 12, 13, 14, 15, 16, 17, 18, 19, 20}))
			}
			script, value := honestScript, int64(openSat)
			var afterBtc []*wire.TxOut
			announceVout := uint32(before)
			switch dev {
			case "amount+1":
				value++
			case "amount-1":
				value--
			case "amount-1000":
				value -= 1000
			case "swapped-keys":
				script = altScript(takerPub, makerPub, scriptHash, csv)
			case "third-key":
				script = altScript(thirdKey.PubKey().SerializeCompressed(), takerPub, scriptHash, csv)
			case "other-hash":
				script = altScript(makerPub, takerPub, r.Bytes32(), csv)
			case "other-csv":
				script = altScript(makerPub, takerPub, scriptHash, rapid.SampledFrom([]uint32{60, 1007, 10080, 1}).Draw(t, "otherCsv"))
			case "wrong-vout":
				announceVout++
			case "duplicate-first-bad":
				tx.AddTxOut(wire.NewTxOut(value-5, script))
				announceVout = uint32(len(tx.TxOut))
			case "extra-outputs":
				tx.AddTxOut(wire.NewTxOut(12345, []byte{0x51}))
				announceVout = uint32(len(tx.TxOut))
			case "equal-value-before":
				tx.AddTxOut(wire.NewTxOut(value, []byte{0x00, 0x14, 7, 7, 7, 4, 5, 6, 7, 8, 9, 10, 11, 12, 13, 14, 15, 16, 17, 18, 19, 20}))
				announceVout = uint32(len(tx.TxOut))
			case "split-script-and-amount":
				// the swap script on one output, the negotiated amount on another: no single output has both
				decoy := wire.NewTxOut(value, []byte{0x00, 0x14, 8, 8, 8, 4, 5, 6, 7, 8, 9, 10, 11, 12, 13, 14, 15, 16, 17, 18, 19, 20})
				value = rapid.SampledFrom([]int64{330, 1000, value / 2, value - 1}).Draw(t, "splitValue")
				if rapid.Bool().Draw(t, "decoyFirst") {
					tx.AddTxOut(decoy)
					announceVout = uint32(len(tx.TxOut)) - uint32(rapid.IntRange(0, 1).Draw(t, "announceDecoy"))
				} else {
					afterBtc = append(afterBtc, decoy)
					announceVout = uint32(len(tx.TxOut)) + uint32(rapid.IntRange(0, 1).Draw(t, "announceDecoy"))
				}
			}
			tx.AddTxOut(wire.NewTxOut(value, script))
			for _, o := range afterBtc {
				tx.AddTxOut(o)
			}
			tx.AddTxOut(wire.NewTxOut(44_000, []byte{0x00, 0x14, 9, 9, 9, 4, 5, 6, 7, 8, 9, 10, 11, 12, 13, 14, 15, 16, 17, 18, 19, 20}))
			var buf bytes.Buffer
			_ = tx.Serialize(&buf)
			spec = &openingSpec{Deviation: dev, TxID: tx.TxHash().String(), TxHex: hex.EncodeToString(buf.Bytes()), NOuts: len(tx.TxOut), Vout: announceVout}
			if dev == "unrelated-tx" {
				utx := wire.NewMsgTx(2)
				utx.AddTxIn(wire.NewTxIn(wire.NewOutPoint(&ph, 1), nil, wire.TxWitness{r.Bytes32()}))
				utx.AddTxOut(wire.NewTxOut(value, []byte{0x51}))
				var ub bytes.Buffer
				_ = utx.Serialize(&ub)
				spec.TxID, spec.TxHex, spec.NOuts, spec.Vout = utx.TxHash().String(), hex.EncodeToString(ub.Bytes()), 1, 0
			}
		}
		// ---- broadcast, announce, confirm, deliver (orders and timings generated) ----
		if err := w.ExternalRawTx(chain, spec.TxID, spec.TxHex, spec.NOuts, ""); err != nil {
			t.Fatalf("chain: %v", err)
		}
		sid, _ := swap.ParseSwapIdFromString(id)
		otb, _ := json.Marshal(&swap.OpeningTxBroadcastedMessage{SwapId: sid, Payreq: payreq, TxId: spec.TxID, ScriptOut: spec.Vout, BlindingKey: spec.BlindKey})
		minedBefore := rapid.IntRange(0, 2).Draw(t, "blocksBeforeAnnouncement")
		w.Mine(chain, uint32(minedBefore))
		a.N.Deliver(m.Id, mtOpeningTx, otb)
		if rapid.IntRange(0, 3).Draw(t, "reAnnounce") == 0 {
			a.N.Deliver(m.Id, mtOpeningTx, otb)
		}
		restarted := false
		for step := 0; step < 6; step++ {
			w.Mine(chain, 1)
			if rapid.IntRange(0, 7).Draw(t, "restart") == 0 {
				a.N.Kill()
				if err := a.N.Boot(); err != nil {
					t.Fatal(err)
				}
				a.N.Recover()
				restarted = true
			}
			for _, ev := range a.N.DueWatcherEvents() {
				a.N.DeliverWatcherEvent(ev)
			}
		}
		// ---- the oracle ----
		desc := fmt.Sprintf("chain=%s out=%v lnd=%v amount=%d premium=%d opening=%s invoice=%s(cltv %d) restarted=%v", chain, out, a.N.LNDStyle, amount, premium, dev, invDev, invCltv, restarted)
		// ground truth about the announced transaction, recomputed from its bytes
		truthOK, truthWhy := openingIsGood(chain, spec, makerPub, takerPub, invHash, csv, openSat)
		invoiceOK := invMsat == claimSat*1000
		maxCltv := int64(503)
		if chain == "lbtc" {
			maxCltv = 29
		}
		paid := 0
		for _, pc := range a.N.PayCalls {
			if pc.Kind != "claim" {
				continue
			}
			paid++
			if pc.Payreq != payreq {
				t.Fatalf("VKEY[C01/paid-other-invoice] %s: paid an invoice that was not the announced one", desc)
			}
			height := pc.HeightBtc
			if chain == "lbtc" {
				height = pc.HeightLbc
			}
			txh := w.ChainOf(chain).Txs[spec.TxID].Height
			if txh == 0 || height-txh+1 < required {
				t.Fatalf("VKEY[C01/paid-without-depth] %s: paid at height %d, tx confirmed at %d (need %d confirmations)", desc, height, txh, required)
			}
			if !truthOK {
				t.Fatalf("VKEY[C01/paid-for-bad-opening:%s] %s: paid although %s", dev, desc, truthWhy)
			}
			if !invoiceOK {
				t.Fatalf("VKEY[C01/paid-wrong-invoice-amount:%s] %s: paid an invoice over %d msat, claim amount is %d sat", invDev, desc, invMsat, claimSat)
			}
		}
		// the honest case must lead to a payment, otherwise "never pays" would satisfy everything above
		if dev == "honest" && invDev == "honest" && paid == 0 && sim.Starved() {
			// the payment loop's (harness-shortened) retry budget ran out before its first tick was
			// handled: the goroutine was starved by machine load, no attempt was made and none refused.
			// That is a time budget hit, not a refusal: the case is inconclusive.
			col.Class("pay-loop-starved")
			t.Skip("payment loop starved")
		}
		if dev == "honest" && invDev == "honest" && paid == 0 {
			t.Fatalf("VKEY[C01/honest-maker-not-paid] %s: nothing deviates but the taker did not pay\n%s", desc, tailLog(20))
		}
		if truthOK && invoiceOK && invCltv <= maxCltv && paid == 0 && dev != "duplicate-first-bad" && dev != "equal-value-before" {
			// acceptable-but-unusual shapes (explicit output, wrong announced vout, extra outputs) are
			// allowed to be refused; count them
			col.Class("valid-but-refused:" + dev)
		}
		nt := paid > 0 || dev != "honest" || invDev != "honest"
		col.Case(desc+seed, nt, map[string]interface{}{"chain": chain, "swap_out": out, "opening": dev, "invoice": invDev, "paid": paid > 0, "opening_truly_good": truthOK},
			"opening:"+dev, "invoice:"+invDev, fmt.Sprintf("paid:%v", paid > 0))
	})
}

// openingIsGood recomputes from the transaction bytes whether it contains an
// output paying exactly amount (policy asset) to the swap script.
func openingIsGood(chain string, spec *openingSpec, makerPub, takerPub, hash []byte, csv uint32, amount uint64) (bool, string) {
	want := realtx.P2WSH(scriptpolicy.Build(scriptpolicy.Params{Maker: makerPub, Taker: takerPub, Hash: hash, CSV: csv}))
	if chain == "btc" {
		tx := wire.NewMsgTx(2)
		if err := tx.Deserialize(bytes.NewReader(mustHex(spec.TxHex))); err != nil {
			return false, "the transaction does not decode"
		}
		for _, o := range tx.TxOut {
			if bytes.Equal(o.PkScript, want) && o.Value == int64(amount) {
				return true, ""
			}
		}
		return false, "no output pays the amount to the script of (maker, taker, invoice hash, csv)"
	}
	tx, err := transaction.NewTxFromHex(spec.TxHex)
	if err != nil {
		return false, "the transaction does not decode"
	}
	bk, _ := btcec.PrivKeyFromBytes(mustHex(spec.BlindKey))
	_, policy32 := realtx.PolicyAsset()
	for _, o := range tx.Outputs {
		if !bytes.Equal(o.Script, want) {
			continue
		}
		v, as, err := realtx.Unblind(o, bk)
		if err != nil {
			continue
		}
		if v == amount && bytes.Equal(as, policy32) {
			return true, ""
		}
	}
	return false, "no output pays the amount in the policy asset to the script of (maker, taker, invoice hash, csv) under the announced blinding key"
}

func mustHex(s string) []byte {
	b, err := hex.DecodeString(s)
	if err != nil {
		panic(err)
	}
	return b
}

func tailLog(n int) string {
	l := sim.LogDump()
	lines := bytes.Split([]byte(l), []byte("\n"))
	if len(lines) > n {
		lines = lines[len(lines)-n:]
	}
	return string(bytes.Join(lines, []byte("\n")))
}
