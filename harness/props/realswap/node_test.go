package realswap

import (
	"context"
	"encoding/hex"

	"github.com/btcsuite/btcd/btcutil"
	"github.com/elementsproject/peerswap/lnd"
	"github.com/elementsproject/peerswap/onchain"
	"github.com/elementsproject/peerswap/swap"
	"github.com/vulpemventures/go-elements/elementsutil"

	"verifharness/realtx"
	"verifharness/sim"
)

// realNode is a sim node whose wallets and validators are the repository's real
// on-chain code: onchain.LiquidOnChain over a confidential-transaction wallet,
// and the LND wallet adapter + onchain.BitcoinOnChain over fake gRPC clients.
type realNode struct {
	N      *sim.Node
	LW     *realtx.LiquidWallet
	BW     *realtx.BtcWallet
	Liquid *onchain.LiquidOnChain
	Btc    *onchain.BitcoinOnChain
	Est    *realtx.FixedEstimator
}

func newRealNode(w *sim.World, name, seed string) *realNode {
	rn := &realNode{N: w.AddNode(name), LW: realtx.NewLiquidWallet(seed + "-l"), BW: realtx.NewBtcWallet(seed + "-b"), Est: &realtx.FixedEstimator{Rate: 2500}}
	rn.Liquid = onchain.NewLiquidOnChain(rn.LW, realtx.Net)
	rn.Btc = onchain.NewBitcoinOnChain(rn.Est, btcutil.Amount(1250), btcutil.Amount(253), realtx.BtcNet)
	// every transaction the wallets hand to the network appears on the simulated chain
	rn.LW.OnSend = func(tx *realtx.LiquidChainTx) {
		if len(tx.Tx.Inputs) == 1 {
			prev := hex.EncodeToString(elementsutil.ReverseBytes(tx.Tx.Inputs[0].Hash))
			if w.MarkSpent("lbtc", prev, tx.Tx.Inputs[0].Index, tx.ID, name) == nil {
				return
			}
		}
		_ = w.ExternalRawTx("lbtc", tx.ID, tx.Hex, len(tx.Tx.Outputs), name)
	}
	rn.BW.OnPublish = func(tx *realtx.BtcChainTx) {
		if len(tx.Tx.TxIn) == 1 {
			op := tx.Tx.TxIn[0].PreviousOutPoint
			if w.MarkSpent("btc", op.Hash.String(), op.Index, tx.ID, name) == nil {
				return
			}
		}
		_ = w.ExternalRawTx("btc", tx.ID, tx.Hex, len(tx.Tx.TxOut), name)
	}
	rn.N.WalletFactory = func(p *sim.Proc, chain string) (swap.Wallet, swap.Validator, swap.TxWatcher) {
		if chain == "lbtc" {
			return rn.Liquid, rn.Liquid, sim.NewTokenWatcher(p, chain)
		}
		cl := lnd.VerifNewClient(context.Background(), rn.BW.LN(), rn.BW.Kit(), nil, rn.Btc)
		return cl, rn.Btc, sim.NewTokenWatcher(p, chain)
	}
	return rn
}
