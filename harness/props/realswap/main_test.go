package realswap

import (
	"io"
	"log"
	"os"
	"testing"
	"time"

	"github.com/elementsproject/peerswap/swap"

	"verifharness/sim"
	"verifharness/stats"
)

func TestMain(m *testing.M) {
	log.SetOutput(io.Discard)
	swap.VerifSetPayTiming(200*time.Microsecond, 40*time.Millisecond)
	swap.VerifSetNoBackoff(true)
	stats.Starved = sim.Starved
	code := m.Run()
	stats.Flush()
	os.Exit(code)
}
