package realswap

import (
	"bytes"
	"crypto/sha256"
	"encoding/hex"
	"encoding/json"
	"fmt"
	"math/big"
	"testing"

	"github.com/btcsuite/btcd/btcec/v2"
	"github.com/elementsproject/peerswap/premium"
	"github.com/elementsproject/peerswap/swap"
	"pgregory.net/rapid"

	"verifharness/oracle/scriptpolicy"
	"verifharness/realtx"
	"verifharness/sim"
	"verifharness/stats"
)

const (
	mtSwapInRequest    = 42069
	mtSwapOutRequest   = 42071
	mtSwapInAgreement  = 42073
	mtSwapOutAgreement = 42075
	mtOpeningTx        = 42077
	mtCancel           = 42079
	mtCoopClose        = 42081
)

func lastOfType(n *sim.Node, typ int) *sim.SentMsg {
	var out *sim.SentMsg
	for _, m := range n.SentBy() {
		if m.Type == typ {
			out = m
		}
	}
	return out
}

func TestC08OpeningMessageMatchesTransaction(t *testing.T) {
	col := stats.Get("C08.message")
	rapid.Check(t, func(t *rapid.T) {
		sim.CaseStart(t)
		w := sim.NewWorld()
		defer w.Close()
		seed := rapid.StringMatching(`[a-z]{6}`).Draw(t, "seed")
		a := newRealNode(w, "alice", seed)
		m := w.AddNode("mallory")
		w.LN.AddChannel("300x3x0", a.N.Id, m.Id, 500_000_000_000, 500_000_000_000)
		chain := rapid.SampledFrom([]string{"btc", "lbtc"}).Draw(t, "chain")
		// wallet funding result: position of the swap output, number of inputs, equal-valued neighbour
		before := rapid.IntRange(0, 3).Draw(t, "outsBefore")
		after := rapid.IntRange(0, 2).Draw(t, "outsAfter")
		inputs := rapid.IntRange(1, 3).Draw(t, "inputs")
		equal := before > 0 && rapid.IntRange(0, 3).Draw(t, "equalValue") == 0
		a.LW.OutsBefore, a.LW.OutsAfter, a.LW.Inputs, a.LW.EqualValue = before, after, inputs, equal
		a.BW.OutsBefore, a.BW.OutsAfter, a.BW.Inputs, a.BW.EqualValue = before, after, inputs, equal
		if err := a.N.Boot(); err != nil {
			t.Fatal(err)
		}
		amount := rapid.Uint64Range(100_000, 20_000_000).Draw(t, "amount")
		viaRequest := rapid.Bool().Draw(t, "viaSwapOutRequest")
		takerKey := sim.KeyFromName("c08-taker-" + seed)
		takerPub := hex.EncodeToString(takerKey.PubKey().SerializeCompressed())
		asset, network := "", "regtest"
		if chain == "lbtc" {
			asset, network = a.Liquid.GetAsset(), ""
		}
		var id string
		var premiumSat int64
		agrVersion := uint8(7)
		if viaRequest {
			rate := rapid.SampledFrom([]int64{0, 2000, -1500, 10_000}).Draw(t, "ratePPM")
			as := premium.BTC
			if chain == "lbtc" {
				as = premium.LBTC
			}
			pr, _ := premium.NewPremiumRate(as, premium.SwapOut, premium.NewPPM(rate))
			_ = a.N.Premium.SetRate(nil, m.Id, pr)
			var idb [32]byte
			copy(idb[:], rapid.SliceOfN(rapid.Byte(), 32, 32).Draw(t, "id"))
			id = hex.EncodeToString(idb[:])
			sid, _ := swap.ParseSwapIdFromString(id)
			req, _ := json.Marshal(&swap.SwapOutRequestMessage{ProtocolVersion: 7, SwapId: sid, Asset: asset, Network: network, Scid: "300x3x0", Amount: amount, Pubkey: takerPub, PremiumLimit: 1 << 40})
			a.N.Deliver(m.Id, mtSwapOutRequest, req)
			for _, pr := range a.N.InvoicesMade {
				if inv := w.LN.Invoices[pr]; inv != nil && inv.Type == int(swap.INVOICE_FEE) {
					inv.Paid = true
					a.N.DeliverPayment(sim.Notif{Node: a.N.Name, SwapId: id, Type: swap.INVOICE_FEE, Payreq: pr})
				}
			}
			p := new(big.Int).Mul(new(big.Int).SetUint64(amount), big.NewInt(rate))
			premiumSat = p.Quo(p, big.NewInt(1_000_000)).Int64()
		} else {
			var sm *swap.SwapStateMachine
			var err error
			w.Step(a.N, func() { sm, err = a.N.Svc.SwapIn(m.Id, chain, "300x3x0", a.N.Id, amount, 50_000) })
			if err != nil {
				t.Fatalf("SwapIn: %v", err)
			}
			id = sm.SwapId.String()
			premiumSat = rapid.SampledFrom([]int64{0, 1, 1000, -1000, int64(amount / 20)}).Draw(t, "premium")
			// the version the responder echoes is not negotiated again: the swap keeps the parameters (csv,
			// invoice expiry / cltv) of the protocol version this node requested
			agrVersion = rapid.SampledFrom([]uint8{7, 7, 7, 6, 0, 8, 255}).Draw(t, "agreementVersion")
			agr, _ := json.Marshal(&swap.SwapInAgreementMessage{ProtocolVersion: agrVersion, SwapId: sm.SwapId, Pubkey: takerPub, Premium: premiumSat})
			a.N.Deliver(m.Id, mtSwapInAgreement, agr)
		}
		desc := fmt.Sprintf("chain=%s viaRequest=%v amount=%d premium=%d before=%d after=%d inputs=%d equal=%v", chain, viaRequest, amount, premiumSat, before, after, inputs, equal)
		msg := lastOfType(a.N, mtOpeningTx)
		if msg == nil && agrVersion != 7 {
			// refusing an agreement that names another protocol version is fine
			col.Case(desc+fmt.Sprintf(" agreementVersion=%d", agrVersion), false, nil, "agreement-with-other-version-refused")
			return
		}
		if msg == nil {
			t.Fatalf("harness: no opening_tx_broadcasted sent (%s)\n%s", desc, sim.LogDump())
		}
		if agrVersion != 7 {
			desc += fmt.Sprintf(" agreementVersion=%d", agrVersion)
		}
		var ob swap.OpeningTxBroadcastedMessage
		if err := json.Unmarshal(msg.Payload, &ob); err != nil {
			t.Fatal(err)
		}
		rec := findRec(a.N, id)
		makerPubHex := rec.Data.GetMakerPubkey()
		makerPub, _ := hex.DecodeString(makerPubHex)
		takerPubB, _ := hex.DecodeString(takerPub)
		// the invoice the maker issued
		inv := w.LN.Invoices[ob.Payreq]
		if inv == nil || inv.CreatedBy != "alice" {
			t.Fatalf("VKEY[C08/invoice-unknown] %s: payreq in the message was not issued by the node", desc)
		}
		claimSat, openSat := amount, amount
		if viaRequest {
			claimSat = uint64(int64(amount) + premiumSat)
		} else {
			openSat = uint64(int64(amount) + premiumSat)
		}
		wantExpiry, wantCltv, csv := uint64(86400), int64(503), uint32(1008)
		if chain == "lbtc" {
			wantExpiry, wantCltv, csv = 3600, 29, 10080
		}
		if inv.AmountMsat != claimSat*1000 {
			t.Fatalf("VKEY[C08/invoice-amount] %s: claim invoice over %d msat, claim amount is %d sat", desc, inv.AmountMsat, claimSat)
		}
		if inv.Expiry != wantExpiry || inv.CLTV != wantCltv {
			t.Fatalf("VKEY[C08/invoice-terms] %s: invoice expiry %d s / final CLTV %d, want %d / %d", desc, inv.Expiry, inv.CLTV, wantExpiry, wantCltv)
		}
		hash, _ := hex.DecodeString(inv.Hash)
		pre, _ := hex.DecodeString(inv.Preimage)
		if h := sha256.Sum256(pre); !bytes.Equal(h[:], hash) {
			t.Fatalf("harness: invoice hash is not the hash of its preimage")
		}
		wantScript := realtx.P2WSH(scriptpolicy.Build(scriptpolicy.Params{Maker: makerPub, Taker: takerPubB, Hash: hash, CSV: csv}))
		trueVout := -1
		if chain == "btc" {
			tx := a.BW.Published[0]
			if tx.ID != ob.TxId {
				t.Fatalf("VKEY[C08/tx-id] %s: message names %s, the wallet published %s", desc, ob.TxId, tx.ID)
			}
			for i, o := range tx.Tx.TxOut {
				if bytes.Equal(o.PkScript, wantScript) && o.Value == int64(openSat) {
					trueVout = i
				}
			}
			if trueVout < 0 {
				t.Fatalf("VKEY[C08/no-swap-output] %s: the published tx has no output paying %d to the script of (maker,taker,invoice hash,csv)", desc, openSat)
			}
			if ob.BlindingKey != "" {
				t.Fatalf("VKEY[C08/blinding-key-on-bitcoin] %s: blinding key %q", desc, ob.BlindingKey)
			}
		} else {
			tx := a.LW.Sent[0]
			if tx.ID != ob.TxId {
				t.Fatalf("VKEY[C08/tx-id] %s: message names %s, the wallet broadcast %s", desc, ob.TxId, tx.ID)
			}
			bk, err := hex.DecodeString(ob.BlindingKey)
			if err != nil || len(bk) != 32 {
				t.Fatalf("VKEY[C08/blinding-key] %s: blinding key %q", desc, ob.BlindingKey)
			}
			priv, _ := btcec.PrivKeyFromBytes(bk)
			_, policy32 := realtx.PolicyAsset()
			for i, o := range tx.Tx.Outputs {
				if !bytes.Equal(o.Script, wantScript) {
					continue
				}
				v, as, err := realtx.Unblind(o, priv)
				if err != nil {
					t.Fatalf("VKEY[C08/blinding-key] %s: the announced blinding key does not unblind the swap output: %v", desc, err)
				}
				if v == openSat && bytes.Equal(as, policy32) {
					trueVout = i
				}
			}
			if trueVout < 0 {
				t.Fatalf("VKEY[C08/no-swap-output] %s: the broadcast tx has no output paying %d (policy asset) to the script of (maker,taker,invoice hash,csv)", desc, openSat)
			}
		}
		if int(ob.ScriptOut) != trueVout {
			t.Fatalf("VKEY[C08/%s/wrong-vout] %s: message says script_out=%d, the swap output is at index %d", chain, desc, ob.ScriptOut, trueVout)
		}
		col.Case(desc, trueVout != 0, map[string]interface{}{"chain": chain, "via_request": viaRequest, "amount": amount, "premium": premiumSat, "swap_vout": trueVout}, "chain:"+chain, fmt.Sprintf("vout:%d", trueVout))
	})
}

func findRec(n *sim.Node, id string) *swap.SwapStateMachine {
	for _, s := range n.Swaps() {
		if s.SwapId.String() == id {
			return s
		}
	}
	return nil
}
