package swapsim

import (
	"fmt"
	"strings"
	"testing"

	"pgregory.net/rapid"

	"verifharness/sim"
	"verifharness/stats"
)

// routeCLTV is the total CLTV delta the forced single-hop route carries.
func routeCLTV(lnd bool, invoiceCLTV int64) int64 {
	if lnd {
		return invoiceCLTV + 3 // final + lnd's BlockPadding
	}
	return invoiceCLTV + 1 // CLN: delay = final + 1
}

func TestC05BitcoinHtlcExpiresBeforeRefund(t *testing.T) {
	col := stats.Get("C05.hist")
	rapid.Check(t, func(t *rapid.T) {
		lnd := rapid.Bool().Draw(t, "lnd")
		out := rapid.Bool().Draw(t, "swapOut")
		sim.CaseStart(t)
		s := newTakerScenario("btc", out, lnd)
		defer s.W.Close()
		if err := s.A.Boot(); err != nil {
			t.Fatal(err)
		}
		// corner mode: everything aimed at the one region where the HTLC can reach the refund height - invoice
		// CLTV and payment height both near their maxima, the opening confirmed at or before the start,
		// and a retry loop that walks across the boundary in small steps while blocks arrive
		corner := rapid.IntRange(0, 4).Draw(t, "corner") == 0
		cltv := rapid.OneOf(rapid.SampledFrom([]int64{0, 9, 18, 144, 400, 500, 502, 503, 504, 505, 600}), rapid.Int64Range(0, 504), rapid.Int64Range(300, 504), rapid.Int64Range(0, 600)).Draw(t, "invoiceCLTV")
		if corner {
			cltv = rapid.SampledFrom([]int64{504, 504, 503, 502, 500, 496}).Draw(t, "cornerCLTV")
		}
		// when does the maker broadcast relative to the taker's start?
		early := out && (rapid.IntRange(0, 2).Draw(t, "earlyBroadcast") == 0 || corner)
		earlyBlocks := uint32(0)
		var payreq, hash, txid string
		var vout uint32
		broadcast := func() {
			payreq, hash = s.honestInvoice(cltv)
			var err error
			txid, vout, err = s.broadcastHonestOpening(hash)
			if err != nil {
				t.Fatalf("opening: %v", err)
			}
		}
		if early {
			earlyBlocks = rapid.SampledFrom([]uint32{0, 1, 1, 2}).Draw(t, "earlyBlocks")
			s.AfterRequest = func() {
				broadcast()
				s.W.Mine("btc", earlyBlocks)
			}
		}
		if err := s.negotiate(freshId(t)); err != nil {
			t.Skip("negotiation failed: " + err.Error())
		}
		start0 := s.W.Height("btc")
		if rec := recOf(s.A, s.Id); rec != nil && rec.Data.StartingBlockHeight != 0 {
			start0 = rec.Data.StartingBlockHeight
		}
		// the taker may be down for a while before the announcement reaches it (the maker retransmits)
		restartWaiting := rapid.SampledFrom([]string{"no", "no", "no", "before-broadcast", "after-broadcast"}).Draw(t, "restartWhileWaiting")
		downBlocks := uint32(0)
		down := func() {
			downBlocks = rapid.SampledFrom([]uint32{0, 1, 11, 100, 300, 450}).Draw(t, "downBlocks")
			s.A.Kill()
			s.W.Mine("btc", downBlocks)
			if err := s.A.Boot(); err != nil {
				t.Fatal(err)
			}
			s.A.Recover()
		}
		if restartWaiting == "before-broadcast" {
			down()
		}
		if !early {
			// late broadcast: somewhere inside the window
			delay := rapid.SampledFrom([]uint32{0, 0, 0, 1, 2, 100, 400, 498}).Draw(t, "broadcastDelay")
			if corner {
				delay = 0
			}
			s.W.Mine("btc", delay)
			broadcast()
		}
		if restartWaiting == "after-broadcast" {
			s.W.Mine("btc", rapid.SampledFrom([]uint32{0, 1, 3}).Draw(t, "confBeforeDown"))
			down()
		}
		if rec := recOf(s.A, s.Id); rec == nil || isTerminal(rec.Current) {
			t.Skip("swap ended while the taker was down")
		}
		// the height the node itself measures from (used only to aim the generator at the node's own
		// boundary; the oracle below uses the chain's ground truth)
		start := start0
		if rec := recOf(s.A, s.Id); rec != nil && rec.Data.StartingBlockHeight != 0 {
			start = rec.Data.StartingBlockHeight
		}
		s.announce(payreq, txid, vout)
		// confirmations arrive, the callback is delivered some time later
		s.W.Mine("btc", rapid.SampledFrom([]uint32{1, 3, 3, 3, 10}).Draw(t, "confBlocks"))
		target := rapid.SampledFrom([]int64{0, 1, 1, 100, 300, 400, 480, 490, 498, 500, 503, 504, 505}).Draw(t, "payOffset")
		if corner {
			target = 1008 - cltv - int64(rapid.IntRange(9, 22).Draw(t, "cornerBelow"))
		} else if rapid.Bool().Draw(t, "aimAtBoundary") {
			// aim at the line height + cltv = start + csv, where the HTLC begins to overlap the refund
			// (or at the end of the payment window when that comes first)
			target = min(1008-cltv, 505) - int64(rapid.IntRange(0, 16).Draw(t, "belowBoundary"))
			if target < 0 {
				target = 0
			}
		}
		if h := int64(s.W.Height("btc")); int64(start)+target > h {
			s.W.Mine("btc", uint32(int64(start)+target-h))
		}
		// failing attempts while more blocks arrive
		nfail := rapid.IntRange(0, 3).Draw(t, "failingAttempts")
		if corner {
			nfail = rapid.IntRange(3, 6).Draw(t, "cornerFailingAttempts")
		}
		plan := make([]sim.PayOutcome, nfail)
		for i := range plan {
			plan[i] = sim.PayFailClean
		}
		s.A.PayPlan["claim"] = plan
		if nfail > 0 {
			var mines []uint32
			for i := 0; i <= nfail; i++ {
				if corner {
					mines = append(mines, rapid.SampledFrom([]uint32{1, 2, 3, 4}).Draw(t, "cornerMine"))
					continue
				}
				mines = append(mines, rapid.SampledFrom([]uint32{0, 0, 1, 2, 3, 6, 13}).Draw(t, "mineDuringRetry"))
			}
			// the first two height queries belong to the confirmation path, not the retry loop
			s.A.MineOnHeightCall["btc"] = append([]uint32{0}, mines...)
		}
		if rapid.IntRange(0, 4).Draw(t, "restartBeforeCallback") == 0 {
			s.A.Kill()
			if err := s.A.Boot(); err != nil {
				t.Fatal(err)
			}
			s.A.Recover()
		}
		for i := 0; i < 3; i++ {
			for _, ev := range s.A.DueWatcherEvents() {
				s.A.DeliverWatcherEvent(ev)
			}
		}
		confHeight := s.W.Chains["btc"].Txs[txid].Height
		attempts := 0
		worst := int64(1 << 40)
		for _, pc := range s.A.PayCalls {
			if pc.Kind != "claim" {
				continue
			}
			attempts++
			expiry := int64(pc.HeightBtc) + routeCLTV(lnd, cltv)
			refund := int64(confHeight) + 1008
			if refund-expiry < worst {
				worst = refund - expiry
			}
			if !(expiry < refund) {
				key := fmt.Sprintf("C05/htlc-outlives-csv:%s", map[bool]string{true: "lnd", false: "cln"}[lnd])
				col.Violation(t, key, "taker (%s back-end, swap-out=%v) paid at height %d (start %d, +%d) an invoice with final CLTV %d: HTLC can be settled until block %d, the maker (opening confirmed at %d = start%+d) can refund in block %d",
					map[bool]string{true: "LND", false: "CLN"}[lnd], out, pc.HeightBtc, start, int64(pc.HeightBtc)-int64(start), cltv, expiry, confHeight, int64(confHeight)-int64(start), refund)
				return
			}
		}
		nt := attempts > 0 && (int64(s.W.Height("btc"))-int64(start) >= 400 || cltv >= 400 || confHeight <= start)
		cls := []string{fmt.Sprintf("attempts:%d", min(attempts, 3))}
		if attempts == 0 {
			why := "no-record"
			if rec := recOf(s.A, s.Id); rec != nil {
				why = string(rec.Current)
				if rec.Data.LastErrString != "" {
					why += ":" + strings.TrimRight(firstWords(rec.Data.LastErrString, 3), "0123456789,: ")
				}
			}
			cls = append(cls, "no-attempt:"+why)
		}
		if restartWaiting != "no" {
			cls = append(cls, "restart-while-waiting:"+restartWaiting)
			if downBlocks >= 11 && attempts > 0 {
				cls = append(cls, "paid-after-long-downtime")
			}
		}
		if corner {
			cls = append(cls, "corner")
			if attempts > 1 {
				cls = append(cls, "corner-with-retries")
			}
		}
		if nfail > 0 && attempts > 1 {
			cls = append(cls, "retried-while-blocks-arrived")
		}
		if confHeight <= start {
			cls = append(cls, "confirmed-before-start")
		}
		if attempts > 0 && worst <= 8 {
			cls = append(cls, "margin<=8")
		}
		col.Case(fmt.Sprintf("lnd=%v out=%v cltv=%d early=%v/%d target=%d nfail=%d conf=%d start=%d rw=%s/%d", lnd, out, cltv, early, earlyBlocks, target, nfail, confHeight, start, restartWaiting, downBlocks), nt,
			map[string]interface{}{"lnd": lnd, "swap_out": out, "invoice_cltv": cltv, "start": start, "conf_height": confHeight, "pay_offset": target, "attempts": attempts, "worst_margin": worst}, cls...)
	})
}

func firstWords(s string, n int) string {
	w := strings.Fields(s)
	if len(w) > n {
		w = w[:n]
	}
	return strings.Join(w, " ")
}
