package swapsim

import (
	"fmt"
	"testing"

	"pgregory.net/rapid"

	"verifharness/sim"
	"verifharness/stats"
)

// routeCLTV is the total CLTV delta the forced single-hop route carries.
func routeCLTV(lnd bool, invoiceCLTV int64) int64 {
	if lnd {
		return invoiceCLTV + 3 // final + lnd's BlockPadding
	}
	return invoiceCLTV + 1 // CLN: delay = final + 1
}

func TestC05BitcoinHtlcExpiresBeforeRefund(t *testing.T) {
	col := stats.Get("C05.hist")
	rapid.Check(t, func(t *rapid.T) {
		lnd := rapid.Bool().Draw(t, "lnd")
		out := rapid.Bool().Draw(t, "swapOut")
		s := newTakerScenario("btc", out, lnd)
		defer s.W.Close()
		if err := s.A.Boot(); err != nil {
			t.Fatal(err)
		}
		cltv := rapid.OneOf(rapid.SampledFrom([]int64{0, 9, 18, 144, 400, 500, 502, 503, 504, 505, 600}), rapid.Int64Range(0, 600)).Draw(t, "invoiceCLTV")
		// when does the maker broadcast relative to the taker's start?
		early := out && rapid.IntRange(0, 2).Draw(t, "earlyBroadcast") == 0
		earlyBlocks := uint32(0)
		var payreq, hash, txid string
		var vout uint32
		broadcast := func() {
			payreq, hash = s.honestInvoice(cltv)
			var err error
			txid, vout, err = s.broadcastHonestOpening(hash)
			if err != nil {
				t.Fatalf("opening: %v", err)
			}
		}
		if early {
			earlyBlocks = rapid.SampledFrom([]uint32{0, 1, 1, 2}).Draw(t, "earlyBlocks")
			s.AfterRequest = func() {
				broadcast()
				s.W.Mine("btc", earlyBlocks)
			}
		}
		if err := s.negotiate(freshId(t)); err != nil {
			t.Skip("negotiation failed: " + err.Error())
		}
		start := s.W.Height("btc")
		if rec := recOf(s.A, s.Id); rec != nil && rec.Data.StartingBlockHeight != 0 {
			start = rec.Data.StartingBlockHeight
		}
		if !early {
			// late broadcast: somewhere inside the window
			s.W.Mine("btc", rapid.SampledFrom([]uint32{0, 0, 1, 2, 100, 400, 498, 499, 500, 501}).Draw(t, "broadcastDelay"))
			broadcast()
		}
		s.announce(payreq, txid, vout)
		// confirmations arrive, the callback is delivered some time later
		s.W.Mine("btc", rapid.SampledFrom([]uint32{1, 3, 3, 3, 10}).Draw(t, "confBlocks"))
		target := rapid.SampledFrom([]int64{0, 1, 100, 400, 498, 500, 501, 502, 503, 504, 505}).Draw(t, "payOffset")
		if h := int64(s.W.Height("btc")); int64(start)+target > h {
			s.W.Mine("btc", uint32(int64(start)+target-h))
		}
		// failing attempts while more blocks arrive
		nfail := rapid.IntRange(0, 3).Draw(t, "failingAttempts")
		plan := make([]sim.PayOutcome, nfail)
		for i := range plan {
			plan[i] = sim.PayFailClean
		}
		s.A.PayPlan["claim"] = plan
		if nfail > 0 {
			var mines []uint32
			for i := 0; i <= nfail; i++ {
				mines = append(mines, rapid.SampledFrom([]uint32{0, 0, 1, 2, 3}).Draw(t, "mineDuringRetry"))
			}
			// the first two height queries belong to the confirmation path, not the retry loop
			s.A.MineOnHeightCall["btc"] = append([]uint32{0}, mines...)
		}
		if rapid.IntRange(0, 4).Draw(t, "restartBeforeCallback") == 0 {
			s.A.Kill()
			if err := s.A.Boot(); err != nil {
				t.Fatal(err)
			}
			s.A.Recover()
		}
		for i := 0; i < 3; i++ {
			for _, ev := range s.A.DueWatcherEvents() {
				s.A.DeliverWatcherEvent(ev)
			}
		}
		confHeight := s.W.Chains["btc"].Txs[txid].Height
		attempts := 0
		worst := int64(1 << 40)
		for _, pc := range s.A.PayCalls {
			if pc.Kind != "claim" {
				continue
			}
			attempts++
			expiry := int64(pc.HeightBtc) + routeCLTV(lnd, cltv)
			refund := int64(confHeight) + 1008
			if refund-expiry < worst {
				worst = refund - expiry
			}
			if !(expiry < refund) {
				key := fmt.Sprintf("C05/htlc-outlives-csv:%s", map[bool]string{true: "lnd", false: "cln"}[lnd])
				col.Violation(t, key, "taker (%s back-end, swap-out=%v) paid at height %d (start %d, +%d) an invoice with final CLTV %d: HTLC can be settled until block %d, the maker (opening confirmed at %d = start%+d) can refund in block %d",
					map[bool]string{true: "LND", false: "CLN"}[lnd], out, pc.HeightBtc, start, int64(pc.HeightBtc)-int64(start), cltv, expiry, confHeight, int64(confHeight)-int64(start), refund)
				return
			}
		}
		nt := attempts > 0 && (int64(s.W.Height("btc"))-int64(start) >= 400 || cltv >= 400 || confHeight <= start)
		cls := []string{fmt.Sprintf("attempts:%d", min(attempts, 3))}
		if confHeight <= start {
			cls = append(cls, "confirmed-before-start")
		}
		if attempts > 0 && worst <= 8 {
			cls = append(cls, "margin<=8")
		}
		col.Case(fmt.Sprintf("lnd=%v out=%v cltv=%d early=%v/%d target=%d nfail=%d conf=%d start=%d", lnd, out, cltv, early, earlyBlocks, target, nfail, confHeight, start), nt,
			map[string]interface{}{"lnd": lnd, "swap_out": out, "invoice_cltv": cltv, "start": start, "conf_height": confHeight, "pay_offset": target, "attempts": attempts, "worst_margin": worst}, cls...)
	})
}
