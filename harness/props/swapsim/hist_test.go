package swapsim

import (
	"crypto/sha256"
	"encoding/hex"
	"encoding/json"
	"fmt"
	"sort"
	"strings"

	"github.com/elementsproject/peerswap/swap"
	"pgregory.net/rapid"

	"verifharness/sim"
)

// Message type numbers from the protocol document (not from the code's constants).
const (
	mtSwapInRequest    = 42069
	mtSwapOutRequest   = 42071
	mtSwapInAgreement  = 42073
	mtSwapOutAgreement = 42075
	mtOpeningTx        = 42077
	mtCancel           = 42079
	mtCoopClose        = 42081
)

// Hist is one generated history over a simulated world with two real nodes
// (alice, bob) and a scripted identity (mallory).
type Hist struct {
	T       *rapid.T
	W       *sim.World
	A, B    *sim.Node
	Mallory *sim.Node // never booted: only an identity with a channel to alice
	Ops     []string
	Cfg     HistCfg
	Classes map[string]bool

	sentSeen     int
	monitors     []func(h *Hist) // run after every step
	inDowntime   bool            // a node is down and its peer is taking steps
	recoverFault string          // planted at the next reboot (sweep scenarios)
	hangReported bool
	stop         bool            // a monitor hit a known finding: stop checking this case
	startedAt    map[string]int  // swap id -> op index
	preRecovery  map[string]bool // ids of messages delivered between Start() and RecoverSwaps()
}

// HistCfg tunes the generator.
type HistCfg struct {
	MaxSteps      int
	Chains        []string
	Crashes       bool // crash points inside steps
	Restarts      bool
	Faults        bool
	PayOutcomes   bool
	Timeouts      bool
	Adversary     bool // mallory / mutated messages
	Drops         bool
	LNDStyle      bool
	MultiSwap     bool // several swaps / channels / spellings
	BigMines      bool
	NoInitialSwap bool
	SlowPays      bool // payment calls that block longer than the retry budget
	PeerMoves     bool // the counterparty of a live swap sends cancel / a useless coop_close at any point
	HeightLags    bool // height queries may answer a tip below the true one (lagging back-end)
	RecoverFaults bool // a service call fails once while the restarted node recovers its swaps
	Eager         bool // per history: watches / notifiers registered for a past event call back at once on their own goroutine
	Weights       map[string]int
}

func (h *Hist) opf(format string, a ...interface{}) {
	h.Ops = append(h.Ops, fmt.Sprintf(format, a...))
}

func (h *Hist) class(c string) { h.Classes[c] = true }

func (h *Hist) classList() []string {
	var l []string
	for c := range h.Classes {
		l = append(l, c)
	}
	sort.Strings(l)
	return l
}

// Key is the canonical description of the history (for distinctness).
func (h *Hist) Key() string { return strings.Join(h.Ops, ";") }

func newHist(t *rapid.T, cfg HistCfg) *Hist {
	sim.CaseStart(t)
	w := sim.NewWorld()
	h := &Hist{T: t, W: w, Cfg: cfg, Classes: map[string]bool{}, startedAt: map[string]int{}}
	h.A = w.AddNode("alice")
	h.B = w.AddNode("bob")
	h.Mallory = w.AddNode("mallory")
	h.A.LNDStyle = cfg.LNDStyle
	w.LN.AddChannel("100x1x0", h.A.Id, h.B.Id, 5_000_000_000, 5_000_000_000)
	w.LN.AddChannel("200x2x0", h.A.Id, h.B.Id, 5_000_000_000, 5_000_000_000)
	w.LN.AddChannel("300x3x0", h.A.Id, h.Mallory.Id, 5_000_000_000, 5_000_000_000)
	if err := h.A.Boot(); err != nil {
		t.Fatalf("boot: %v", err)
	}
	if err := h.B.Boot(); err != nil {
		t.Fatalf("boot: %v", err)
	}
	if cfg.Eager && rapid.Bool().Draw(t, "eagerCallbacks") {
		h.A.Eager, h.B.Eager = true, true
		h.class("eager-callbacks")
	}
	sim.LogReset()
	return h
}

func (h *Hist) Close() {
	h.W.Close()
	hangs := h.W.AllHangs()
	if len(hangs) > 0 && !h.hangReported {
		// also when the hang happened in a closure phase that runs no monitors
		h.hangReported = true
		h.T.Fatalf("VKEY[C18/entry-point-never-returned] a call into the node did not return within %v\n%s\n-- goroutines --\n%s", sim.StepWatchdog, h.dump(), hangs[0])
	}
}

func (h *Hist) nodes() []*sim.Node { return []*sim.Node{h.A, h.B} }

func (h *Hist) alive(n *sim.Node) bool { return n.Proc != nil && !n.Proc.Dead() }

// afterStep runs the monitors.
func (h *Hist) afterStep() {
	if h.stop {
		return
	}
	if hs := h.W.AllHangs(); len(hs) > 0 {
		// whatever property the history is checking: an entry point that never returns is a violation
		last := ""
		if len(h.Ops) > 0 {
			last = h.Ops[len(h.Ops)-1]
		}
		h.hangReported = true
		h.T.Fatalf("VKEY[C18/entry-point-never-returned] a call into the node did not return within %v (history so far ends with %q)\n%s\n-- goroutines --\n%s", sim.StepWatchdog, last, h.dump(), hs[0])
	}
	for _, m := range h.monitors {
		m(h)
		if h.stop {
			return
		}
	}
	h.sentSeen = len(h.W.Sent)
}

// ---- actions ----

func (h *Hist) actStartSwap() {
	t := h.T
	n := h.A
	peer := h.B
	if h.Cfg.MultiSwap && rapid.Bool().Draw(t, "fromBob") {
		n, peer = h.B, h.A
	}
	if !h.alive(n) {
		return
	}
	chain := rapid.SampledFrom(h.Cfg.Chains).Draw(t, "chain")
	typ := rapid.SampledFrom([]string{"out", "in"}).Draw(t, "type")
	scid := "100x1x0"
	if h.Cfg.MultiSwap {
		scid = rapid.SampledFrom([]string{"100x1x0", "100:1:0", "200x2x0", "200:2:0"}).Draw(t, "scid")
	}
	amt := rapid.SampledFrom([]uint64{100_000, 1_000_000, 2_500_000}).Draw(t, "amt")
	var err error
	var sm *swap.SwapStateMachine
	crashed := h.W.Step(n, func() {
		if typ == "out" {
			sm, err = n.Svc.SwapOut(peer.Id, chain, scid, n.Id, amt, 20_000)
		} else {
			sm, err = n.Svc.SwapIn(peer.Id, chain, scid, n.Id, amt, 20_000)
		}
	})
	id := ""
	if sm != nil && !crashed {
		id = sm.SwapId.String()[:6]
		h.startedAt[sm.SwapId.String()] = len(h.Ops)
	}
	h.opf("start(%s,%s,%s,%s,%d)=%s/%v crashed=%v", n.Name, typ, chain, scid, amt, id, err != nil, crashed)
	h.class("start:" + typ + ":" + chain)
	h.handleCrash(n, crashed)
}

// handleCrash reboots a node whose process died inside a step.
func (h *Hist) handleCrash(n *sim.Node, crashed bool) {
	if !crashed {
		return
	}
	h.class("crash-in-step")
	h.afterStep()
	h.reboot(n, false)
}

func (h *Hist) reboot(n *sim.Node, deliverBeforeRecover bool) {
	// the chains keep moving while the node is down
	down := []uint32{0, 0, 0, 1, 3, 30}
	chain := h.Cfg.Chains[0]
	if h.Cfg.BigMines || h.Cfg.Eager {
		// a long downtime: the csv of that chain (1008, Liquid 10080, legacy Liquid 60) matures while the
		// node is away
		chain = rapid.SampledFrom(h.Cfg.Chains).Draw(h.T, "downChain")
		down = append(down, 61, csvFor(chain)+1, csvFor(chain)+1)
	}
	if db := rapid.SampledFrom(down).Draw(h.T, "blocksWhileDown"); db > 0 {
		if !(h.Cfg.BigMines || h.Cfg.Eager) {
			chain = rapid.SampledFrom(h.Cfg.Chains).Draw(h.T, "downChain")
		}
		h.W.Mine(chain, db)
		h.opf("mine-while-down(%s,%d)", chain, db)
		h.class("blocks-while-down")
		if db > 60 {
			h.class("long-downtime")
		}
	}
	if h.Cfg.Eager && !h.inDowntime {
		// the rest of the world goes on while the node is down: its peer receives what was sent, sees
		// confirmations, pays, claims
		h.inDowntime = true
		for i, k := 0, rapid.IntRange(0, 6).Draw(h.T, "peerStepsWhileDown"); i < k && !h.stop; i++ {
			h.progressWithout(n)
		}
		h.inDowntime = false
	}
	if err := n.Boot(); err != nil {
		h.T.Fatalf("reboot: %v", err)
	}
	h.opf("boot(%s)", n.Name)
	// a back-end that is not ready yet when the daemon comes up: one call of the recovery fails
	rf := h.recoverFault
	h.recoverFault = ""
	if rf == "" && h.Cfg.RecoverFaults && rapid.IntRange(0, 2).Draw(h.T, "recoverFaultWanted") == 0 {
		calls := recoverFaultCalls
		if h.Cfg.HeightLags {
			calls = append([]string{"heightlag", "heightlag"}, calls...)
		}
		rf = rapid.SampledFrom(calls).Draw(h.T, "recoverFault")
	}
	if rf == "heightlag" {
		// the chain back-end is still catching up when the daemon comes up
		for _, c := range h.Cfg.Chains {
			n.HeightLag[c] = []uint32{3, 3}
		}
		h.opf("lagging-heights-during-recovery(%s)", n.Name)
		h.class("recover-fault:heightlag")
	} else if rf != "" {
		n.Faults[rf] = []sim.FaultKind{sim.FaultBefore}
		h.opf("fault-during-recovery(%s,%s)", n.Name, rf)
		h.class("recover-fault:" + rf)
	}
	if deliverBeforeRecover {
		// the daemon registers its message handler (Start) before RecoverSwaps
		for _, m := range h.W.PendingMsgs() {
			if m.To == n.Id {
				if h.preRecovery == nil {
					h.preRecovery = map[string]bool{}
				}
				h.preRecovery[swapIdOfPayload(m.Payload)] = true
				h.W.DeliverMsg(m)
				h.opf("deliver-before-recover(#%d,%d)", m.Seq, m.Type)
				h.class("deliver-before-recover")
				break
			}
		}
	}
	crashed := n.Recover()
	h.opf("recover(%s) crashed=%v", n.Name, crashed)
	if crashed {
		// a crash during recovery: boot again without further crash points
		h.W.CrashAt = -1
		h.class("crash-in-recover")
		if err := n.Boot(); err != nil {
			h.T.Fatalf("reboot: %v", err)
		}
		n.Recover()
		h.opf("boot+recover(%s)", n.Name)
	}
}

func (h *Hist) actDeliverMsg() {
	t := h.T
	p := h.W.PendingMsgs()
	if len(p) == 0 {
		return
	}
	i := 0
	if len(p) > 1 {
		i = rapid.IntRange(0, len(p)-1).Draw(t, "msgidx")
		if i > 0 {
			h.class("reordered-delivery")
		}
	}
	m := p[i]
	mode := "deliver"
	if h.Cfg.Drops {
		mode = rapid.SampledFrom([]string{"deliver", "deliver", "deliver", "deliver", "drop", "dup"}).Draw(t, "mode")
	}
	to := h.W.NodeById(m.To)
	if !h.alive(to) {
		return
	}
	switch mode {
	case "drop":
		h.W.Drop(m)
		h.opf("drop(#%d,%d)", m.Seq, m.Type)
		h.class("msg-dropped")
	case "dup":
		crashed, _ := h.W.DeliverMsg(m)
		if !crashed {
			crashed, _ = to.Deliver(h.W.Nodes[m.From].Id, m.Type, m.Payload)
		}
		h.opf("dup(#%d,%d) crashed=%v", m.Seq, m.Type, crashed)
		h.class("msg-duplicated")
		h.handleCrash(to, crashed)
	default:
		crashed, _ := h.W.DeliverMsg(m)
		h.opf("deliver(#%d,%d->%s) crashed=%v", m.Seq, m.Type, to.Name, crashed)
		h.handleCrash(to, crashed)
	}
}

func (h *Hist) actMine() {
	t := h.T
	chain := rapid.SampledFrom(h.Cfg.Chains).Draw(t, "chain")
	opts := []uint32{1, 1, 2, 3}
	if h.Cfg.BigMines {
		opts = append(opts, 30, 60, 61, 504, 505, 1008, 10080)
	}
	n := rapid.SampledFrom(opts).Draw(t, "blocks")
	h.W.Mine(chain, n)
	h.opf("mine(%s,%d)", chain, n)
	if n >= 60 {
		h.class("big-mine")
	}
}

func (h *Hist) actWatcher() {
	t := h.T
	for _, n := range h.nodes() {
		if !h.alive(n) {
			continue
		}
		evs := n.DueWatcherEvents()
		if len(evs) == 0 {
			continue
		}
		ev := evs[0]
		if len(evs) > 1 {
			ev = evs[rapid.IntRange(0, len(evs)-1).Draw(t, "evidx")]
		}
		crashed, err := n.DeliverWatcherEvent(ev)
		h.opf("watcher(%s,%s,%s) err=%v crashed=%v", n.Name, ev.Kind, ev.SwapId[:6], err != nil, crashed)
		h.class("watcher:" + ev.Kind)
		h.handleCrash(n, crashed)
		return
	}
}

func (h *Hist) actPaymentNotif() {
	for _, n := range h.nodes() {
		if !h.alive(n) {
			continue
		}
		nts := n.TakePaymentNotifs()
		for _, nt := range nts {
			crashed := n.DeliverPayment(nt)
			h.opf("paid(%s,%s,%v) crashed=%v", n.Name, nt.SwapId[:6], nt.Type, crashed)
			h.class("payment-notified")
			h.handleCrash(n, crashed)
			if crashed {
				return
			}
		}
		if len(nts) > 0 {
			return
		}
	}
}

func (h *Hist) actTimeout() {
	t := h.T
	n := rapid.SampledFrom(h.nodes()).Draw(t, "tonode")
	if !h.alive(n) {
		return
	}
	ts := n.Timeouts.Snapshot()
	if len(ts) == 0 {
		return
	}
	i := rapid.IntRange(0, len(ts)-1).Draw(t, "toidx")
	fired, crashed := n.FireTimeout(i)
	h.opf("timeout(%s,%d,%s) fired=%v crashed=%v", n.Name, i, ts[i].SwapId[:6], fired, crashed)
	if fired {
		h.class("timeout-fired")
	}
	h.handleCrash(n, crashed)
}

func (h *Hist) actRestart() {
	t := h.T
	n := rapid.SampledFrom(h.nodes()).Draw(t, "rnode")
	n.Kill()
	h.opf("kill(%s)", n.Name)
	h.class("restart")
	h.reboot(n, rapid.Bool().Draw(t, "deliverBeforeRecover"))
}

func (h *Hist) actArmCrash() {
	t := h.T
	k := rapid.IntRange(0, 14).Draw(t, "crashOffset")
	h.W.CrashAt = h.W.TraceLen() + k
	h.opf("armcrash(+%d)", k)
}

// recoverFaultCalls: what a recovering swap may call first.
var recoverFaultCalls = []string{"ln.DecodePayreq", "validator.ValidateTx", "watcher.GetBlockHeight", "store.UpdateData", "msg.Send",
	"wallet.CreatePreimageSpendingTransaction", "wallet.CreateCsvSpendingTransaction", "ln.GetPayreq"}

var faultable = []string{
	"msg.Send", "store.UpdateData", "wallet.CreateOpeningTransaction", "wallet.SetLabel",
	"wallet.CreatePreimageSpendingTransaction", "wallet.CreateCsvSpendingTransaction", "wallet.CreateCoopSpendingTransaction",
	"watcher.GetBlockHeight", "ln.GetPayreq", "ln.DecodePayreq", "wallet.GetFlatOpeningTXFee", "wallet.GetOnchainBalance",
	"ln.SpendableMsat", "ln.ReceivableMsat", "ln.ProbePayment",
}

func (h *Hist) actFault() {
	t := h.T
	n := rapid.SampledFrom(h.nodes()).Draw(t, "fnode")
	call := rapid.SampledFrom(faultable).Draw(t, "fcall")
	kind := rapid.SampledFrom([]sim.FaultKind{sim.FaultBefore, sim.FaultBefore, sim.FaultAfter}).Draw(t, "fkind")
	cnt := rapid.SampledFrom([]int{1, 1, 2, 25}).Draw(t, "fcount")
	skip := rapid.IntRange(0, 2).Draw(t, "fskip")
	var q []sim.FaultKind
	for i := 0; i < skip; i++ {
		q = append(q, sim.FaultNone)
	}
	for i := 0; i < cnt; i++ {
		q = append(q, kind)
	}
	n.Faults[call] = q
	h.opf("fault(%s,%s,kind=%d,skip=%d,n=%d)", n.Name, call, kind, skip, cnt)
	h.class("fault:" + call)
}

// actMakerDown: a maker whose opening output is unspent is down for longer than the csv (or just short of
// it) and comes back.
func (h *Hist) actMakerDown() {
	for _, n := range h.nodes() {
		if !h.alive(n) {
			continue
		}
		for _, o := range n.Openings {
			c := h.W.Chains[o.Chain]
			if c.Spender(o.TxID, o.Vout) != "" {
				continue
			}
			blocks := o.Params.CSV + 1
			if rapid.IntRange(0, 3).Draw(h.T, "downJustShort") == 0 {
				blocks = o.Params.CSV - 2
			}
			h.opf("maker-down(%s,%s,%d blocks)", n.Name, o.Chain, blocks)
			h.class("maker-down-past-csv")
			n.Kill()
			h.W.Mine(o.Chain, blocks)
			h.reboot(n, false)
			return
		}
	}
}

// actHeightLag: the node's chain back-end answers its next height queries with a tip below the true one.
func (h *Hist) actHeightLag() {
	t := h.T
	n := rapid.SampledFrom(h.nodes()).Draw(t, "lagNode")
	chain := rapid.SampledFrom(h.Cfg.Chains).Draw(t, "lagChain")
	lag := rapid.SampledFrom([]uint32{1, 2, 5, 70}).Draw(t, "lag")
	skip := rapid.IntRange(0, 2).Draw(t, "lagSkip")
	var q []uint32
	for i := 0; i < skip; i++ {
		q = append(q, 0)
	}
	n.HeightLag[chain] = append(q, lag)
	h.opf("heightlag(%s,%s,-%d,skip=%d)", n.Name, chain, lag, skip)
	h.class("height-lag")
}

func (h *Hist) actPayPlan() {
	t := h.T
	n := rapid.SampledFrom(h.nodes()).Draw(t, "pnode")
	kind := rapid.SampledFrom([]string{"claim", "claim", "fee"}).Draw(t, "pkind")
	outs := rapid.SliceOfN(rapid.SampledFrom([]sim.PayOutcome{sim.PaySuccess, sim.PayFailClean, sim.PayFailClean, sim.PayErrPending, sim.PayErrSettled}), 1, 4).Draw(t, "outcomes")
	if h.Cfg.SlowPays && kind == "claim" && rapid.IntRange(0, 5).Draw(t, "slowPay") == 0 {
		// a payment call that blocks longer than the retry budget before it succeeds
		outs[rapid.IntRange(0, len(outs)-1).Draw(t, "slowIdx")] = sim.PaySlowSuccess
		h.class("payplan:slow-success")
	}
	n.PayPlan[kind] = outs
	h.opf("payplan(%s,%s,%v)", n.Name, kind, outs)
	// blocks may arrive while the retry loop runs
	if rapid.IntRange(0, 3).Draw(t, "mineDuringPay") == 0 {
		chain := rapid.SampledFrom(h.Cfg.Chains).Draw(t, "mchain")
		n.MineOnHeightCall[chain] = []uint32{0, 0, rapid.SampledFrom([]uint32{1, 30, 60, 504}).Draw(t, "mblocks")}
		h.opf("mine-during-pay(%s,%s)", n.Name, chain)
	}
}

func (h *Hist) actResolvePending() {
	t := h.T
	var pend []string
	for hash, p := range h.W.LN.Payments {
		if p.State == sim.PayPending {
			pend = append(pend, hash)
		}
	}
	if len(pend) == 0 {
		return
	}
	sort.Strings(pend)
	hash := pend[0]
	settle := rapid.Bool().Draw(t, "settle")
	h.W.LN.ResolvePending(hash, settle)
	h.opf("resolve(%s,%v)", hash[:6], settle)
	h.class(fmt.Sprintf("htlc-resolved:%v", settle))
}

// actPeerMove lets the counterparty of a live swap deviate: it sends a cancel, or a coop_close with a
// useless key, for that swap at whatever point the swap is in (as the protocol allows a peer to do).
func (h *Hist) actPeerMove() {
	t := h.T
	type cand struct {
		n    *sim.Node
		id   string
		peer string
		st   string
	}
	var cands []cand
	for _, n := range h.nodes() {
		if !h.alive(n) {
			continue
		}
		for _, s := range n.Swaps() {
			if isTerminal(s.Current) || s.Data == nil || s.Data.PeerNodeId == "" {
				continue
			}
			cands = append(cands, cand{n, s.SwapId.String(), s.Data.PeerNodeId, string(s.Current)})
		}
	}
	if len(cands) == 0 {
		return
	}
	sort.Slice(cands, func(i, j int) bool { return cands[i].n.Name+cands[i].id < cands[j].n.Name+cands[j].id })
	c := cands[rapid.IntRange(0, len(cands)-1).Draw(t, "pmSwap")]
	typ := rapid.SampledFrom([]int{mtCancel, mtCancel, mtCoopClose}).Draw(t, "pmType")
	payload := buildMessage(t, typ, c.id, "", "btc", "")
	crashed, err := c.n.Deliver(c.peer, typ, payload)
	h.opf("peermove(%s,%d,%s in %s) err=%v crashed=%v", c.n.Name, typ, c.id[:6], strings.TrimPrefix(c.st, "State_"), err != nil, crashed)
	h.class(fmt.Sprintf("peermove:%d:%s", typ, strings.TrimPrefix(c.st, "State_")))
	h.handleCrash(c.n, crashed)
}

// settleAll delivers everything that is deliverable (honest environment burst).
func (h *Hist) actSettle() {
	before := len(h.W.Sent)
	h.W.Settle(6)
	h.opf("settle(+%dmsgs)", len(h.W.Sent)-before)
	for _, n := range h.nodes() {
		if n.Proc.Dead() {
			h.handleCrash(n, true)
		}
	}
}

// actProgress performs the next step an honest, live environment would take:
// deliver the oldest pending message, else a payment notification, else a due
// watcher callback, else mine one block on a chain somebody waits on.
func (h *Hist) actProgress() {
	if p := h.W.PendingMsgs(); len(p) > 0 {
		m := p[0]
		to := h.W.NodeById(m.To)
		if h.alive(to) {
			crashed, _ := h.W.DeliverMsg(m)
			h.opf("deliver(#%d,%d->%s) crashed=%v", m.Seq, m.Type, to.Name, crashed)
			h.handleCrash(to, crashed)
			return
		}
	}
	for _, n := range h.nodes() {
		if !h.alive(n) {
			continue
		}
		if nts := n.TakePaymentNotifs(); len(nts) > 0 {
			for _, nt := range nts {
				crashed := n.DeliverPayment(nt)
				h.opf("paid(%s,%s,%v) crashed=%v", n.Name, nt.SwapId[:6], nt.Type, crashed)
				h.class("payment-notified")
				h.handleCrash(n, crashed)
				if crashed {
					return
				}
			}
			return
		}
	}
	for _, n := range h.nodes() {
		if !h.alive(n) {
			continue
		}
		if evs := n.DueWatcherEvents(); len(evs) > 0 {
			ev := evs[0]
			crashed, err := n.DeliverWatcherEvent(ev)
			h.opf("watcher(%s,%s,%s) err=%v crashed=%v", n.Name, ev.Kind, ev.SwapId[:6], err != nil, crashed)
			h.class("watcher:" + ev.Kind)
			h.handleCrash(n, crashed)
			return
		}
	}
	for _, n := range h.nodes() {
		for _, chain := range h.Cfg.Chains {
			for _, cw := range n.ConfWaits[chain] {
				if !cw.Done {
					h.W.Mine(chain, 1)
					h.opf("mine(%s,1)", chain)
					return
				}
			}
		}
	}
}

// progressWithout lets everything except the (dead) node down take one step.
func (h *Hist) progressWithout(down *sim.Node) {
	for _, m := range h.W.PendingMsgs() {
		to := h.W.NodeById(m.To)
		if to == nil || to == down || !h.alive(to) {
			continue
		}
		crashed, _ := h.W.DeliverMsg(m)
		h.opf("while-down: deliver(#%d,%d->%s) crashed=%v", m.Seq, m.Type, to.Name, crashed)
		h.class("peer-step-while-down")
		h.handleCrash(to, crashed)
		return
	}
	for _, n := range h.nodes() {
		if n == down || !h.alive(n) {
			continue
		}
		if nts := n.TakePaymentNotifs(); len(nts) > 0 {
			for _, nt := range nts {
				crashed := n.DeliverPayment(nt)
				h.opf("while-down: paid(%s,%s,%v) crashed=%v", n.Name, nt.SwapId[:6], nt.Type, crashed)
				h.class("peer-step-while-down")
				h.handleCrash(n, crashed)
				if crashed {
					return
				}
			}
			return
		}
		if evs := n.DueWatcherEvents(); len(evs) > 0 {
			ev := evs[0]
			crashed, err := n.DeliverWatcherEvent(ev)
			h.opf("while-down: watcher(%s,%s,%s) err=%v crashed=%v", n.Name, ev.Kind, ev.SwapId[:6], err != nil, crashed)
			h.class("peer-step-while-down")
			h.handleCrash(n, crashed)
			return
		}
		for _, chain := range h.Cfg.Chains {
			for _, cw := range n.ConfWaits[chain] {
				if !cw.Done {
					h.W.Mine(chain, 1)
					h.opf("while-down: mine(%s,1)", chain)
					return
				}
			}
		}
	}
}

// ---- helpers for monitors ----

// recOf returns the persisted record of swap id on node n (nil if none).
func recOf(n *sim.Node, id string) *swap.SwapStateMachine {
	for _, s := range n.Swaps() {
		if s.SwapId.String() == id {
			return s
		}
	}
	return nil
}

func isTaker(s *swap.SwapStateMachine) bool {
	return (s.Type == swap.SWAPTYPE_OUT && s.Role == swap.SWAPROLE_SENDER) || (s.Type == swap.SWAPTYPE_IN && s.Role == swap.SWAPROLE_RECEIVER)
}

func isTerminal(st swap.StateType) bool {
	switch st {
	case swap.State_ClaimedCsv, swap.State_SwapCanceled, swap.State_ClaimedPreimage, swap.State_ClaimedCoop:
		return true
	}
	return false
}

func swapIdOfPayload(payload []byte) string {
	var x struct {
		SwapId string `json:"swap_id"`
	}
	_ = json.Unmarshal(payload, &x)
	return x.SwapId
}

func sha256hex(b []byte) string {
	h := sha256.Sum256(b)
	return hex.EncodeToString(h[:])
}

// run draws and executes up to MaxSteps actions.
func (h *Hist) run(actions map[string]func()) {
	t := h.T
	names := make([]string, 0, len(actions))
	for k := range actions {
		names = append(names, k)
	}
	sort.Strings(names)
	var weighted []string
	for _, k := range names {
		wgt := 1
		if v, ok := h.Cfg.Weights[k]; ok {
			wgt = v
		}
		for i := 0; i < wgt; i++ {
			weighted = append(weighted, k)
		}
	}
	if !h.Cfg.NoInitialSwap {
		h.actStartSwap()
		h.afterStep()
	}
	steps := rapid.IntRange(1, h.Cfg.MaxSteps).Draw(t, "steps")
	for i := 0; i < steps && !h.stop; i++ {
		a := rapid.SampledFrom(weighted).Draw(t, "action")
		actions[a]()
		h.afterStep()
	}
}

func (h *Hist) stdActions() map[string]func() {
	m := map[string]func(){
		"start":    h.actStartSwap,
		"deliver":  h.actDeliverMsg,
		"mine":     h.actMine,
		"watcher":  h.actWatcher,
		"paid":     h.actPaymentNotif,
		"settle":   h.actSettle,
		"progress": h.actProgress,
	}
	if h.Cfg.HeightLags {
		m["heightlag"] = h.actHeightLag
	}
	if h.Cfg.Eager {
		m["makerdown"] = h.actMakerDown
	}
	if h.Cfg.Timeouts {
		m["timeout"] = h.actTimeout
	}
	if h.Cfg.Restarts {
		m["restart"] = h.actRestart
	}
	if h.Cfg.Crashes {
		m["armcrash"] = h.actArmCrash
	}
	if h.Cfg.Faults {
		m["fault"] = h.actFault
	}
	if h.Cfg.PeerMoves {
		m["peermove"] = h.actPeerMove
	}
	if h.Cfg.PayOutcomes {
		m["payplan"] = h.actPayPlan
		m["resolve"] = h.actResolvePending
	}
	return m
}

// dump renders the history for failure messages.
func (h *Hist) dump() string {
	var sb strings.Builder
	sb.WriteString("history:\n")
	for i, o := range h.Ops {
		fmt.Fprintf(&sb, "  %2d %s\n", i, o)
	}
	for _, n := range h.nodes() {
		for _, s := range n.Swaps() {
			fmt.Fprintf(&sb, "  %s swap %s type=%v role=%v state=%s\n", n.Name, s.SwapId.String()[:6], s.Type, s.Role, s.Current)
		}
	}
	return sb.String()
}
