package swapsim

import (
	"os"
	"testing"
	"time"

	"github.com/elementsproject/peerswap/swap"

	"verifharness/sim"
	"verifharness/stats"
)

func TestMain(m *testing.M) {
	// harness-owned timing: payment retry tick 200µs, budget 40ms; no back-off sleeps
	swap.VerifSetPayTiming(200*time.Microsecond, 40*time.Millisecond)
	swap.VerifSetNoBackoff(true)
	stats.Starved = sim.Starved
	code := m.Run()
	stats.Flush()
	os.Exit(code)
}
