package swapsim

import (
	"encoding/hex"
	"encoding/json"
	"fmt"
	"math/big"
	"strings"
	"testing"

	"github.com/elementsproject/peerswap/premium"
	"github.com/elementsproject/peerswap/swap"
	"pgregory.net/rapid"

	"verifharness/sim"
	"verifharness/stats"
)

type admCfg struct {
	AllowNew, AcceptAll, Allowlisted, Suspicious bool
	MinMsat                                      uint64
	BtcEnabled, LbtcEnabled                      bool
	Spendable, Receivable                        uint64 // msat
	Balance, OpeningFee                          uint64 // sat
	RatePPM                                      int64  // rate of the requested direction
	OtherRatePPM                                 int64  // rate of the other direction (must not matter)
	NodeNetwork                                  string
}

type admReq struct {
	Out          bool
	Version      uint8
	Amount       uint64
	Asset        string
	Network      string
	Scid         string
	Pubkey       string
	PremiumLimit int64
}

func bigU(v uint64) *big.Int { return new(big.Int).SetUint64(v) }

// admissible is the reference predicate written from the property statement (big-int arithmetic).
func admissible(c admCfg, r admReq) (bool, string) {
	// message well-formedness (protocol): exactly one of asset/network, 33-byte pubkey, scid a[x:]b[x:]c
	liquid := r.Asset != "" && r.Network == ""
	bitcoin := r.Asset == "" && r.Network != ""
	if !liquid && !bitcoin {
		return false, "asset-xor-network"
	}
	if b, err := hex.DecodeString(r.Pubkey); err != nil || len(b) != 33 {
		return false, "pubkey"
	}
	if !validScid(r.Scid) {
		return false, "scid"
	}
	if !c.AllowNew {
		return false, "swaps-disabled"
	}
	if liquid && (!c.LbtcEnabled || r.Asset != sim.LbtcAsset) {
		return false, "chain-liquid"
	}
	if bitcoin && (!c.BtcEnabled || r.Network != c.NodeNetwork) {
		return false, "chain-bitcoin"
	}
	if r.Version != 7 {
		return false, "version"
	}
	amtMsat := new(big.Int).Mul(bigU(r.Amount), big.NewInt(1000))
	if amtMsat.Cmp(bigU(c.MinMsat)) < 0 {
		return false, "min-amount"
	}
	capacity := c.Spendable // swap-in: the responder pays over the channel
	if r.Out {
		capacity = c.Receivable
	}
	if sim.NormScid(r.Scid) != "300x3x0" {
		return false, "channel-unknown" // the amount cannot fit a channel the node does not have
	}
	if amtMsat.Cmp(bigU(capacity)) > 0 {
		return false, "channel-capacity"
	}
	if !(c.AcceptAll || c.Allowlisted) {
		return false, "allowlist"
	}
	if c.Suspicious {
		return false, "suspicious"
	}
	prem := new(big.Int).Mul(bigU(r.Amount), big.NewInt(c.RatePPM))
	prem.Quo(prem, big.NewInt(1_000_000))
	if prem.Cmp(big.NewInt(r.PremiumLimit)) > 0 {
		return false, "premium-limit"
	}
	if r.Out {
		need := new(big.Int).Add(bigU(r.Amount), bigU(c.OpeningFee))
		if need.Cmp(bigU(c.Balance)) > 0 {
			return false, "onchain-balance"
		}
	}
	return true, ""
}

func validScid(s string) bool {
	sep := ""
	if strings.Contains(s, "x") {
		sep = "x"
	} else if strings.Contains(s, ":") {
		sep = ":"
	} else {
		return false
	}
	p := strings.Split(s, sep)
	if len(p) != 3 {
		return false
	}
	for _, x := range p {
		if x == "" {
			return false
		}
		for _, ch := range x {
			if ch < '0' || ch > '9' {
				return false
			}
		}
	}
	return true
}

func TestC11Admission(t *testing.T) {
	col := stats.Get("C11.admission")
	rapid.Check(t, func(t *rapid.T) {
		// a request and configuration that satisfy every condition ...
		keyHex := hex.EncodeToString(sim.KeyFromName("requester-swapkey").PubKey().SerializeCompressed())
		c := admCfg{AllowNew: true, AcceptAll: rapid.Bool().Draw(t, "acceptAll"), Allowlisted: true, MinMsat: rapid.SampledFrom([]uint64{0, 1000, 100_000_000, 250_000_500}).Draw(t, "minMsat"),
			BtcEnabled: true, LbtcEnabled: true, Spendable: 5_000_000_000, Receivable: 5_000_000_000, Balance: 10_000_000, OpeningFee: 1000,
			RatePPM: rapid.SampledFrom([]int64{0, 0, 1000, 2000, -500}).Draw(t, "rate"), OtherRatePPM: rapid.SampledFrom([]int64{0, 5000, -3000, 100_000}).Draw(t, "otherRate")}
		c.NodeNetwork = "regtest"
		if !c.AcceptAll {
			c.Allowlisted = true
		} else {
			c.Allowlisted = rapid.Bool().Draw(t, "alsoListed")
		}
		r := admReq{Out: rapid.Bool().Draw(t, "swapOut"), Version: 7,
			Amount:       rapid.OneOf(rapid.Uint64Range(250_001, 4_999_999), rapid.SampledFrom([]uint64{250_001, 1_000_000, 4_999_999, 5_000_000})).Draw(t, "amount"),
			Scid:         rapid.SampledFrom([]string{"300x3x0", "300:3:0"}).Draw(t, "scid"),
			Pubkey:       keyHex,
			PremiumLimit: rapid.SampledFrom([]int64{100_000, 1_000_000_000_000, 1 << 62}).Draw(t, "limit")}
		if rapid.Bool().Draw(t, "liquid") {
			r.Asset = sim.LbtcAsset
		} else {
			r.Network = "regtest"
		}
		// ... then a generated number of deviations, each breaking (or probing the edge of) one condition
		devs := []string{"swaps-disabled", "chain-off", "wrong-network", "wrong-asset", "both-chains", "no-chain", "version", "amount-below-min", "amount-at-min", "amount-zero",
			"amount-over-capacity", "amount-at-capacity", "amount-overflow", "not-allowlisted", "suspicious", "premium-over-limit", "premium-at-limit", "premium-limit-between-directions", "balance-short", "balance-exact", "balance-below-fee", "balance-zero",
			"bad-pubkey", "bad-scid", "unknown-channel", "node-on-other-network", "node-on-other-network"}
		nd := rapid.SampledFrom([]int{0, 0, 1, 1, 1, 1, 2, 3}).Draw(t, "ndev")
		var applied []string
		for k := 0; k < nd; k++ {
			d := rapid.SampledFrom(devs).Draw(t, "dev")
			applied = append(applied, d)
			liquid := r.Asset != "" && r.Network == ""
			switch d {
			case "swaps-disabled":
				c.AllowNew = false
			case "chain-off":
				if liquid {
					c.LbtcEnabled = false
				} else {
					c.BtcEnabled = false
				}
			case "wrong-network":
				r.Asset, r.Network = "", rapid.SampledFrom([]string{"mainnet", "testnet", "signet", "bogus"}).Draw(t, "net")
			case "wrong-asset":
				r.Network, r.Asset = "", rapid.SampledFrom([]string{strings.Repeat("ab", 33), "abcd", "xyz"}).Draw(t, "asset")
			case "both-chains":
				r.Network, r.Asset = "regtest", sim.LbtcAsset
			case "no-chain":
				r.Network, r.Asset = "", ""
			case "version":
				r.Version = rapid.SampledFrom([]uint8{6, 8, 0, 255}).Draw(t, "version")
			case "amount-below-min":
				if c.MinMsat >= 1000 {
					r.Amount = (c.MinMsat - 1) / 1000
				}
			case "amount-at-min":
				r.Amount = (c.MinMsat + 999) / 1000
			case "amount-zero":
				r.Amount = 0
			case "amount-over-capacity":
				r.Amount = 5_000_001
			case "amount-at-capacity":
				r.Amount = 5_000_000
			case "amount-overflow":
				r.Amount = rapid.SampledFrom([]uint64{18446744073709552, 18446744073709553, 18446744073809552, 18446744073959552, 1 << 63, 1<<64 - 1, 9_223_372_036_854_776}).Draw(t, "hugeAmount")
			case "not-allowlisted":
				c.AcceptAll, c.Allowlisted = false, false
			case "suspicious":
				c.Suspicious = true
			case "premium-over-limit":
				c.RatePPM = 1000
				r.PremiumLimit = int64(r.Amount/1000) - 1
			case "premium-at-limit":
				c.RatePPM = 1000
				r.PremiumLimit = int64(r.Amount / 1000)
			case "premium-limit-between-directions":
				// the limit separates what the two directions would charge
				c.RatePPM, c.OtherRatePPM = 7000, 1000
				if rapid.Bool().Draw(t, "otherHigher") {
					c.RatePPM, c.OtherRatePPM = 1000, 7000
				}
				r.PremiumLimit = int64(r.Amount/1_000_000) * 4000
			case "balance-below-fee":
				c.OpeningFee = rapid.SampledFrom([]uint64{1000, 100, 50_000}).Draw(t, "openingFee")
				c.Balance = rapid.SampledFrom([]uint64{0, 1, c.OpeningFee - 1, c.OpeningFee}).Draw(t, "tinyBalance")
			case "balance-zero":
				c.Balance = 0
			case "balance-short":
				c.Balance = r.Amount + c.OpeningFee - 1
			case "balance-exact":
				c.Balance = r.Amount + c.OpeningFee
			case "node-on-other-network":
				// the node's own bitcoin network and the requested one: equal names match, nothing else does
				c.NodeNetwork = rapid.SampledFrom([]string{"mainnet", "testnet3", "testnet4", "signet", "testnet"}).Draw(t, "nodeNetwork")
				if !liquid {
					r.Network = rapid.SampledFrom([]string{"mainnet", "testnet", "testnet3", "testnet4", "signet", "regtest", c.NodeNetwork, c.NodeNetwork}).Draw(t, "reqNetwork")
				}
			case "bad-pubkey":
				r.Pubkey = rapid.SampledFrom([]string{keyHex[:64], keyHex + "00", "zz", ""}).Draw(t, "pubkey")
			case "bad-scid":
				r.Scid = rapid.SampledFrom([]string{"300x3", "abc", "", "300x3x0x1"}).Draw(t, "badscid")
			case "unknown-channel":
				r.Scid = "9x9x9"
			}
		}
		explicitRate := c.RatePPM != 0 || rapid.Bool().Draw(t, "explicitRate")
		for _, d := range applied {
			if d == "premium-limit-between-directions" {
				explicitRate = true
			}
		}

		sim.CaseStart(t)
		w := sim.NewWorld()
		defer w.Close()
		a := w.AddNode("alice")
		m := w.AddNode("mallory")
		pol := fmt.Sprintf("min_swap_amount_msat=%d\n", c.MinMsat)
		if c.AcceptAll {
			pol += "accept_all_peers=true\n"
		}
		if c.Allowlisted {
			pol += "allowlisted_peers=" + m.Id + "\n"
		}
		if c.Suspicious {
			pol += "suspicious_peers=" + m.Id + "\n"
		}
		if !c.AllowNew {
			pol += "allow_new_swaps=false\n"
		}
		a.WritePolicy(pol)
		a.BtcEnabled, a.LbtcEnabled = c.BtcEnabled, c.LbtcEnabled
		a.BtcNetwork = c.NodeNetwork
		a.Balance["btc"], a.Balance["lbtc"] = c.Balance, c.Balance
		a.OpeningFee = c.OpeningFee
		ch := w.LN.AddChannel("300x3x0", a.Id, m.Id, 0, 0)
		ch.Spendable[a.Id], ch.Receivable[a.Id] = c.Spendable, c.Receivable
		if err := a.Boot(); err != nil {
			t.Fatalf("boot: %v", err)
		}
		if explicitRate {
			for _, as := range []premium.AssetType{premium.BTC, premium.LBTC} {
				for _, op := range []premium.OperationType{premium.SwapIn, premium.SwapOut} {
					rate := c.RatePPM
					if (op == premium.SwapOut) != r.Out {
						rate = c.OtherRatePPM
					}
					pr, _ := premium.NewPremiumRate(as, op, premium.NewPPM(rate))
					if err := a.Premium.SetRate(nil, m.Id, pr); err != nil {
						t.Fatalf("SetRate: %v", err)
					}
				}
			}
		} else {
			// built-in defaults apply: swap-in 0, swap-out 2000 (btc) / 1000 (lbtc)
			if r.Out {
				c.RatePPM = 2000
				if r.Asset != "" && r.Network == "" {
					c.RatePPM = 1000
				}
			}
		}
		id := freshId(t)
		var payload []byte
		typ := mtSwapInRequest
		if r.Out {
			typ = mtSwapOutRequest
			payload, _ = json.Marshal(&swap.SwapOutRequestMessage{ProtocolVersion: r.Version, SwapId: mustSwapId(id), Asset: r.Asset, Network: r.Network, Scid: r.Scid, Amount: r.Amount, Pubkey: r.Pubkey, PremiumLimit: r.PremiumLimit})
		} else {
			payload, _ = json.Marshal(&swap.SwapInRequestMessage{ProtocolVersion: r.Version, SwapId: mustSwapId(id), Asset: r.Asset, Network: r.Network, Scid: r.Scid, Amount: r.Amount, Pubkey: r.Pubkey, PremiumLimit: r.PremiumLimit})
		}
		a.Deliver(m.Id, typ, payload)
		if len(w.Panics) > 0 {
			t.Fatalf("VKEY[C11/panic] %s", truncate(w.Panics[0], 1500))
		}
		agreement, cancel := false, false
		for _, sm := range a.SentBy() {
			if sm.To != m.Id || swapIdOfPayload(sm.Payload) != id {
				continue
			}
			switch sm.Type {
			case mtSwapInAgreement, mtSwapOutAgreement:
				agreement = true
			case mtCancel:
				cancel = true
			}
		}
		ok, why := admissible(c, r)
		desc := fmt.Sprintf("cfg=%+v req=%+v", c, r)
		if agreement && !ok {
			t.Fatalf("VKEY[C11/admitted-although:%s] agreement sent although the %s condition fails\n%s\n-- log --\n%s", why, why, desc, tail(sim.LogDump(), 12))
		}
		if !ok && !cancel {
			t.Fatalf("VKEY[C11/no-cancel:%s] request refused (%s) but the requester got no cancel\n%s\n-- log --\n%s", why, why, desc, tail(sim.LogDump(), 12))
		}
		if ok && !agreement {
			t.Fatalf("VKEY[C11/refused-although-admissible] every condition holds but no agreement was sent\n%s\n-- log --\n%s", desc, tail(sim.LogDump(), 12))
		}
		cl := "admitted"
		if !ok {
			cl = "refused:" + why
		}
		col.Case(desc, len(applied) <= 1, map[string]interface{}{"config": c, "request": r, "deviations": applied, "admitted": agreement, "reason": why}, cl, fmt.Sprintf("deviations:%d", len(applied)))
	})
}
