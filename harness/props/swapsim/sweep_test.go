package swapsim

import (
	"fmt"
	"sort"
	"strings"
	"sync"
	"testing"

	"github.com/elementsproject/peerswap/policy"
	"github.com/elementsproject/peerswap/swap"
	"pgregory.net/rapid"

	"verifharness/sim"
	"verifharness/stats"
)

// Crash-point sweep: where the random histories sample crash points sparsely, the sweep makes "a crash at
// every boundary call" literal for a family of scripted two-party runs. A scenario (who initiates which
// swap on which chain, one transient service fault or payment outcome, back-end style) is run once
// without a crash to learn the length N of its boundary-call trace (store writes, wallet, lightning,
// watcher, transport: each call twice, before and after its effect); the generated case is (scenario,
// i < N): the same run with the calling process killed at trace index i, rebooted (blocks may arrive
// meanwhile) and continued by an honest environment. The property's monitor runs after every step.
type sweepScenario struct {
	Type      string // "out" | "in" (alice initiates towards bob)
	Chain     string
	LND       bool
	FaultNode string // "alice" | "bob" | ""
	FaultCall string // boundary call that fails once (transiently), or "pay:<kind>:<outcome>"
	FaultSkip int
	FaultKind sim.FaultKind
	// SilentAfter: after that many environment steps the peers stop hearing from each other (-1: never)
	SilentAfter int
	// MineDuringPay: blocks that arrive while the taker's claim-payment loop runs (at its second and third
	// height query), so that an attempt can fail and the window can close inside the loop
	MineDuringPay uint32
	// Eager: see HistCfg.Eager (decided per case by the history)
	Eager bool
	// RecoverFault: a boundary call that fails once while the crashed node recovers ("" none)
	RecoverFault string
	// ThroughCsv: once the peers are silent the chain advances past the csv and the watchers report it,
	// all inside the run whose crash points are swept
	ThroughCsv bool
}

// sweepSpec is what a property plugs into the sweep.
type sweepSpec struct {
	monitor func(*stats.Collector) func(*Hist)
	final   func(*Hist, *stats.Collector) // optional closure + end-state check
	silence bool                          // generate cut points where the peer goes silent
	csv     bool                          // after the peer went silent the csv matures inside the swept run
	chains  []string                      // restrict the scenario's chain
	payMine bool                          // blocks arrive during the claim-payment loop and payments fail first
	eager   bool                          // back-ends call back at once for past events; long downtimes at the reboot
	lags    bool                          // a height query may answer a tip below the true one (also while recovering)
}

func (s sweepScenario) key() string {
	return fmt.Sprintf("%s/%s/lnd=%v/%s:%s+%d/%d/silent@%d", s.Type, s.Chain, s.LND, s.FaultNode, s.FaultCall, s.FaultSkip, s.FaultKind, s.SilentAfter) + map[bool]string{true: "/csv", false: ""}[s.ThroughCsv] + fmt.Sprintf("/minepay%d", s.MineDuringPay) + "/rf=" + s.RecoverFault
}

var sweepFaultCalls = []string{"", "", "ln.ProbePayment", "ln.SpendableMsat", "ln.ReceivableMsat", "ln.DecodePayreq", "ln.GetPayreq", "msg.Send", "msg.Send", "store.UpdateData",
	"wallet.CreateOpeningTransaction", "wallet.GetFlatOpeningTXFee", "wallet.CreatePreimageSpendingTransaction", "watcher.GetBlockHeight",
	"pay:fee:fail", "pay:claim:fail", "pay:claim:err-pending", "pay:claim:err-settled"}

func genSweepScenario(t *rapid.T, spec sweepSpec) sweepScenario {
	silence, csv := spec.silence, spec.csv
	s := sweepScenario{
		SilentAfter: -1,
		Type:        rapid.SampledFrom([]string{"out", "in"}).Draw(t, "swType"),
		Chain:       rapid.SampledFrom([]string{"btc", "lbtc"}).Draw(t, "swChain"),
		LND:         rapid.Bool().Draw(t, "swLnd"),
	}
	faults, rfaults := sweepFaultCalls, recoverFaultCalls
	if spec.lags {
		faults = append([]string{"heightlag", "heightlag"}, faults...)
		rfaults = append([]string{"heightlag", "heightlag"}, rfaults...)
	}
	s.FaultCall = rapid.SampledFrom(faults).Draw(t, "swFault")
	if s.FaultCall != "" {
		s.FaultNode = rapid.SampledFrom([]string{"alice", "alice", "bob"}).Draw(t, "swFaultNode")
		s.FaultSkip = rapid.IntRange(0, 2).Draw(t, "swFaultSkip")
		s.FaultKind = rapid.SampledFrom([]sim.FaultKind{sim.FaultBefore, sim.FaultBefore, sim.FaultAfter}).Draw(t, "swFaultKind")
	}
	if len(spec.chains) > 0 {
		s.Chain = rapid.SampledFrom(spec.chains).Draw(t, "swChainRestricted")
	}
	s.Eager = spec.eager
	if rapid.IntRange(0, 2).Draw(t, "swRecoverFaultWanted") == 0 {
		s.RecoverFault = rapid.SampledFrom(rfaults).Draw(t, "swRecoverFault")
	}
	if spec.payMine {
		// the first claim attempts fail cleanly while blocks arrive
		s.FaultCall, s.FaultNode, s.FaultSkip = "pay:claim:fail", map[string]string{"out": "alice", "in": "bob"}[s.Type], rapid.IntRange(0, 2).Draw(t, "swPayFails")
		s.MineDuringPay = rapid.SampledFrom([]uint32{0, 1, 30, 58, 59, 60, 61}).Draw(t, "swMineDuringPay")
	}
	if silence && rapid.Bool().Draw(t, "swGoesSilent") {
		s.SilentAfter = rapid.IntRange(0, 12).Draw(t, "swSilentAfter")
	}
	if csv {
		// the peers fall silent a few steps after the maker broadcast its opening transaction
		s.SilentAfter = rapid.IntRange(0, 3).Draw(t, "swSilentAfterOpening")
		s.ThroughCsv = true
	}
	return s
}

var (
	sweepLenMu sync.Mutex
	sweepLen   = map[string]int{}
)

// runSweepScenario plays the scenario; crashAt < 0 means no crash.
func runSweepScenario(t *rapid.T, s sweepScenario, crashAt int, monitor func(*Hist)) *Hist {
	h := newHist(t, HistCfg{Chains: []string{s.Chain}, NoInitialSwap: true, LNDStyle: s.LND, Eager: s.Eager})
	h.B.LNDStyle = s.LND
	h.monitors = []func(*Hist){monitor}
	if s.FaultCall != "" {
		n := h.A
		if s.FaultNode == "bob" {
			n = h.B
		}
		if strings.HasPrefix(s.FaultCall, "pay:") {
			parts := strings.Split(s.FaultCall, ":")
			kind, outcome := parts[1], parts[2]
			o := map[string]sim.PayOutcome{"fail": sim.PayFailClean, "err-pending": sim.PayErrPending, "err-settled": sim.PayErrSettled}[outcome]
			var q []sim.PayOutcome
			for i := 0; i < s.FaultSkip; i++ {
				q = append(q, sim.PayFailClean)
			}
			n.PayPlan[kind] = append(q, o)
		} else if s.FaultCall == "heightlag" {
			var q []uint32
			for i := 0; i < s.FaultSkip; i++ {
				q = append(q, 0)
			}
			n.HeightLag[s.Chain] = append(q, 3)
		} else {
			var q []sim.FaultKind
			for i := 0; i < s.FaultSkip; i++ {
				q = append(q, sim.FaultNone)
			}
			n.Faults[s.FaultCall] = append(q, s.FaultKind)
		}
	}
	if s.MineDuringPay > 0 {
		taker := h.A
		if s.Type == "in" {
			taker = h.B
		}
		taker.MineOnHeightCall[s.Chain] = []uint32{0, 0, s.MineDuringPay / 2, s.MineDuringPay - s.MineDuringPay/2}
	}
	h.W.CrashAt = crashAt
	h.recoverFault = s.RecoverFault
	var err error
	var sm *swap.SwapStateMachine
	crashed := h.W.Step(h.A, func() {
		if s.Type == "out" {
			sm, err = h.A.Svc.SwapOut(h.B.Id, s.Chain, "100x1x0", h.A.Id, 1_000_000, 20_000)
		} else {
			sm, err = h.A.Svc.SwapIn(h.B.Id, s.Chain, "100x1x0", h.A.Id, 1_000_000, 20_000)
		}
	})
	_ = sm
	h.opf("start(%s,%s) err=%v crashed=%v", s.Type, s.Chain, err != nil, crashed)
	h.handleCrash(h.A, crashed)
	h.afterStep()
	// an honest, live environment: deliver, notify, confirm - until nothing moves any more
	idle, openedAt := 0, -1
	for i := 0; i < 70 && !h.stop && idle < 2; i++ {
		before, tl := len(h.Ops), h.W.TraceLen()
		silentFrom := s.SilentAfter
		if s.ThroughCsv && silentFrom >= 0 {
			if openedAt < 0 && (len(h.A.Openings) > 0 || len(h.B.Openings) > 0) {
				openedAt = i
			}
			silentFrom = 1 << 30
			if openedAt >= 0 {
				silentFrom = openedAt + s.SilentAfter
			}
		}
		if silentFrom >= 0 && i >= silentFrom {
			for _, m := range h.W.PendingMsgs() {
				h.W.Drop(m)
			}
		}
		h.actProgress()
		h.afterStep()
		if len(h.Ops) == before && h.W.TraceLen() == tl {
			idle++
			// pending HTLCs resolve, then one more look
			h.actResolvePendingHonest()
		} else {
			idle = 0
		}
	}
	if s.ThroughCsv && !h.stop {
		// nobody talks any more; the csv matures and the watchers report it
		for _, m := range h.W.PendingMsgs() {
			h.W.Drop(m)
		}
		h.W.Mine(s.Chain, csvFor(s.Chain))
		h.opf("mine(%s,csv)", s.Chain)
		for i, idle := 0, 0; i < 12 && !h.stop && idle < 2; i++ {
			before, tl := len(h.Ops), h.W.TraceLen()
			for _, m := range h.W.PendingMsgs() {
				h.W.Drop(m)
			}
			h.actWatcherAll()
			h.afterStep()
			if len(h.Ops) == before && h.W.TraceLen() == tl {
				idle++
			} else {
				idle = 0
			}
		}
	}
	return h
}

// actWatcherAll delivers every due watcher callback (first one per node).
func (h *Hist) actWatcherAll() {
	for _, n := range h.nodes() {
		if !h.alive(n) {
			continue
		}
		evs := n.DueWatcherEvents()
		if len(evs) == 0 {
			continue
		}
		ev := evs[0]
		crashed, err := n.DeliverWatcherEvent(ev)
		h.opf("watcher(%s,%s,%s) err=%v crashed=%v", n.Name, ev.Kind, ev.SwapId[:6], err != nil, crashed)
		h.class("watcher:" + ev.Kind)
		h.handleCrash(n, crashed)
	}
}

// actResolvePendingHonest settles every pending HTLC (the payee knows the preimage).
func (h *Hist) actResolvePendingHonest() {
	var pend []string
	for hash, p := range h.W.LN.Payments {
		if p.State == sim.PayPending {
			pend = append(pend, hash)
		}
	}
	sort.Strings(pend)
	for _, hash := range pend {
		h.W.LN.ResolvePending(hash, true)
		h.opf("resolve(%s,true)", hash[:6])
	}
}

// crashSweep is the rapid property: one (scenario, crash index) pair per case.
func crashSweep(t *rapid.T, col *stats.Collector, spec sweepSpec) {
	monitor := spec.monitor
	if monitor == nil {
		monitor = func(*stats.Collector) func(*Hist) { return func(*Hist) {} }
	}
	s := genSweepScenario(t, spec)
	sweepLenMu.Lock()
	n, ok := sweepLen[s.key()]
	sweepLenMu.Unlock()
	if !ok {
		h0 := runSweepScenario(t, s, -1, monitor(col))
		n = h0.W.TraceLen()
		h0.Close()
		sweepLenMu.Lock()
		sweepLen[s.key()] = n
		sweepLenMu.Unlock()
	}
	if n == 0 {
		t.Skip("empty trace")
	}
	idx := rapid.IntRange(0, n-1).Draw(t, "crashIndex")
	h := runSweepScenario(t, s, idx, monitor(col))
	defer h.Close()
	if spec.final != nil && !h.stop {
		spec.final(h, col)
	}
	crashedAt := "none"
	if h.Classes["crash-in-step"] || h.Classes["crash-in-recover"] {
		tr := h.W.TraceCopy()
		if idx < len(tr) {
			crashedAt = tr[idx].Call + "." + tr[idx].Phase
		}
	}
	col.Case(s.key()+fmt.Sprintf("@%d", idx), crashedAt != "none", map[string]interface{}{"scenario": s.key(), "crash_index": idx, "crashed_at": crashedAt, "ops": h.Ops}, append(h.classList(), "crash-at:"+crashedAt, "fault:"+s.FaultCall)...)
}

func TestC15CrashSweep(t *testing.T) {
	col := stats.Get("C15.sweep")
	rapid.Check(t, func(t *rapid.T) { crashSweep(t, col, sweepSpec{monitor: monitorC15}) })
}

func TestC06CrashSweep(t *testing.T) {
	col := stats.Get("C06.sweep")
	rapid.Check(t, func(t *rapid.T) { crashSweep(t, col, sweepSpec{monitor: monitorC06, final: closureC06}) })
}

func TestC07CrashSweep(t *testing.T) {
	col := stats.Get("C07.sweep")
	rapid.Check(t, func(t *rapid.T) { crashSweep(t, col, sweepSpec{monitor: monitorC07, final: finalC07, silence: true, eager: true}) })
}

func TestC13CrashSweep(t *testing.T) {
	col := stats.Get("C13.sweep")
	rapid.Check(t, func(t *rapid.T) {
		crashSweep(t, col, sweepSpec{lags: true, monitor: func(c *stats.Collector) func(*Hist) {
			return monitorC13(c, map[anchorKey]uint32{}, map[string]int{}, map[string]int{})
		}})
	})
}

func TestC16CrashSweep(t *testing.T) {
	col := stats.Get("C16.sweep")
	rapid.Check(t, func(t *rapid.T) {
		crashSweep(t, col, sweepSpec{silence: true, eager: true, final: func(h *Hist, c *stats.Collector) {
			closureSilentPeer(h, 4)
			checkC16(h, c)
		}})
	})
}

// finalC26: every swap that ended with the maker's csv refund must have put the peer on the suspicious
// list - in memory, in the policy file, and still after a restart.
func finalC26(h *Hist, col *stats.Collector) {
	for round := 0; round < 2 && !h.stop; round++ {
		for _, n := range h.nodes() {
			if round == 1 {
				n.Kill()
				if err := n.Boot(); err != nil {
					h.T.Fatalf("boot: %v", err)
				}
				n.Recover()
			}
			for _, sw := range n.Swaps() {
				if sw.Data == nil || isTaker(sw) {
					continue
				}
				// ended with the csv refund: the terminal state, or (after the restart of round 1) the
				// claiming state with the refund transaction already recorded - the refund is out, whatever
				// else the node still has to do about this swap
				refundRecorded := strings.Contains(string(sw.Current), "ClaimSwapCsv") && sw.Data.ClaimTxId != "" && round == 1
				if sw.Current != swap.State_ClaimedCsv && !refundRecorded {
					continue
				}
				h.class("csv-refund-ending")
				if refundRecorded {
					h.class("csv-refund-recorded-not-finished")
				}
				peer := sw.Data.PeerNodeId
				fresh, err := policy.CreateFromFile(n.PolicyPath)
				if err != nil {
					h.stop = col.Violation(h.T, "C26/policy-file-broken", "policy file of %s no longer loads: %v", n.Name, err)
					return
				}
				if !fresh.IsPeerSuspicious(peer) || !n.Policy.IsPeerSuspicious(peer) {
					h.stop = col.Violation(h.T, "C26/csv-refund-without-quarantine", "%s reclaimed swap %s via csv but the peer is not quarantined (file: %v, memory: %v, after restart: %v)\n%s",
						n.Name, sw.SwapId.String()[:6], fresh.IsPeerSuspicious(peer), n.Policy.IsPeerSuspicious(peer), round == 1, h.dump())
					return
				}
			}
		}
	}
}

func TestC26CrashSweep(t *testing.T) {
	col := stats.Get("C26.sweep")
	rapid.Check(t, func(t *rapid.T) { crashSweep(t, col, sweepSpec{csv: true, final: finalC26}) })
}

// monitorC04: every claim payment of a Liquid protocol-7 swap happens while the tip (at the call) is inside
// [anchor, anchor+60) of the swap's persisted anchor, with the bounded route CLTV.
func monitorC04(col *stats.Collector) func(h *Hist) {
	seen := map[string]int{}
	return func(h *Hist) {
		for _, n := range h.nodes() {
			calls := n.PayCallsCopy()
			for i := seen[n.Name]; i < len(calls); i++ {
				pc := calls[i]
				if pc.Kind != "claim" {
					continue
				}
				for _, sw := range n.Swaps() {
					if sw.Data == nil || sw.Data.OpeningTxBroadcasted == nil || sw.Data.OpeningTxBroadcasted.Payreq != pc.Payreq || sw.Data.GetChain() != "lbtc" || sw.Data.GetProtocolVersion() != 7 {
						continue
					}
					h.class("liquid-claim-payment")
					anchor := uint64(sw.Data.StartingBlockHeight)
					tip := uint64(pc.HeightLbc)
					if !sw.Data.StartingBlockHeightSet || tip < anchor || tip >= anchor+60 {
						h.stop = col.Violation(h.T, "C04/payment-outside-window", "%s: claim payment attempt for swap %s at liquid height %d, window is [%d,%d) (anchor set: %v)\n%s", n.Name, sw.SwapId.String()[:6], tip, anchor, anchor+60, sw.Data.StartingBlockHeightSet, h.dump())
						return
					}
					if pc.MaxTotal != 32 {
						h.stop = col.Violation(h.T, "C04/route-cltv-limit", "%s: claim payment with total route CLTV limit %d, want 32", n.Name, pc.MaxTotal)
						return
					}
					if tip+2 >= anchor+60 {
						h.class("payment-near-window-end")
					}
				}
			}
			seen[n.Name] = len(calls)
		}
	}
}

func TestC04CrashSweep(t *testing.T) {
	col := stats.Get("C04.sweep")
	rapid.Check(t, func(t *rapid.T) {
		crashSweep(t, col, sweepSpec{monitor: monitorC04, chains: []string{"lbtc"}, payMine: true})
	})
}
