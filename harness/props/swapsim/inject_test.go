package swapsim

import (
	"encoding/hex"
	"encoding/json"
	"fmt"
	"sort"
	"strings"

	"github.com/elementsproject/peerswap/swap"
	"pgregory.net/rapid"

	"verifharness/sim"
)

// injected describes one adversarial message delivery.
type injected struct {
	Target       *sim.Node
	FromId       string
	FromName     string
	Type         int
	SwapId       string
	Payload      []byte
	IdClass      string            // live|finished|fresh|unrecovered
	Before       map[string]string // swap id -> persisted JSON before delivery
	ActiveBefore []string
	SentBefore   int
}

func snapshotRecords(n *sim.Node) map[string]string {
	m := map[string]string{}
	for _, s := range n.Swaps() {
		b, _ := json.Marshal(s)
		m[s.SwapId.String()] = string(b)
	}
	return m
}

func freshId(t *rapid.T) string {
	// the requesting peer chooses the id: degenerate values (all zero, all ones) are legal ids
	if degenerateFor != t {
		degenerateFor, degenerateUsed = t, map[string]bool{}
	}
	id := ""
	switch rapid.IntRange(0, 11).Draw(t, "freshid-shape") {
	case 0:
		id = strings.Repeat("00", 32)
	case 1:
		id = strings.Repeat("ff", 32)
	}
	if id != "" && !degenerateUsed[id] { // "fresh" within the case
		degenerateUsed[id] = true
		return id
	}
	return hex.EncodeToString(rapid.SliceOfN(rapid.Byte(), 32, 32).Draw(t, "freshid"))
}

var (
	degenerateFor  *rapid.T
	degenerateUsed map[string]bool
)

func mustSwapId(s string) *swap.SwapId {
	id, err := swap.ParseSwapIdFromString(s)
	if err != nil {
		panic(err)
	}
	return id
}

// buildMessage crafts a syntactically valid message of the given type.
func buildMessage(t *rapid.T, typ int, id string, scid, chain string, key string) []byte {
	sid := mustSwapId(id)
	asset, network := "", ""
	if chain == "lbtc" {
		asset = sim.LbtcAsset
	} else {
		network = "regtest"
	}
	var v interface{}
	switch typ {
	case mtSwapInRequest:
		v = &swap.SwapInRequestMessage{ProtocolVersion: 7, SwapId: sid, Network: network, Asset: asset, Scid: scid, Amount: 1_000_000, Pubkey: key, PremiumLimit: 100_000}
	case mtSwapOutRequest:
		v = &swap.SwapOutRequestMessage{ProtocolVersion: 7, SwapId: sid, Network: network, Asset: asset, Scid: scid, Amount: 1_000_000, Pubkey: key, PremiumLimit: 100_000}
	case mtSwapInAgreement:
		v = &swap.SwapInAgreementMessage{ProtocolVersion: 7, SwapId: sid, Pubkey: key, Premium: 10}
	case mtSwapOutAgreement:
		v = &swap.SwapOutAgreementMessage{ProtocolVersion: 7, SwapId: sid, Pubkey: key, Payreq: sim.EncodeInvoice(&sim.Invoice{Payee: "x", Hash: sha256hex([]byte(id)), AmountMsat: 1000_000}), Premium: 10}
	case mtOpeningTx:
		v = &swap.OpeningTxBroadcastedMessage{SwapId: sid, Payreq: sim.EncodeInvoice(&sim.Invoice{Payee: "x", Hash: sha256hex([]byte(id)), AmountMsat: 1_000_000_000}), TxId: sha256hex([]byte("tx" + id)), ScriptOut: 0, BlindingKey: sha256hex([]byte("bk" + id))}
	case mtCancel:
		v = &swap.CancelMessage{SwapId: sid, Message: "injected cancel"}
	case mtCoopClose:
		v = &swap.CoopCloseMessage{SwapId: sid, Message: "injected coop", Privkey: sha256hex([]byte("pk" + id))}
	}
	b, _ := json.Marshal(v)
	return b
}

var allTypes = []int{mtSwapInRequest, mtSwapOutRequest, mtSwapInAgreement, mtSwapOutAgreement, mtOpeningTx, mtCancel, mtCoopClose}

// actInject delivers an adversarial (but well-formed) message to alice and
// records what is needed to judge its effect.
func (h *Hist) actInject(check func(h *Hist, inj *injected)) func() {
	return func() {
		t := h.T
		target := h.A
		if !h.alive(target) {
			return
		}
		recs := target.Swaps()
		var live, finished []string
		for _, s := range recs {
			if isTerminal(s.Current) {
				finished = append(finished, s.SwapId.String())
			} else {
				live = append(live, s.SwapId.String())
			}
		}
		sort.Strings(live)
		sort.Strings(finished)
		classes := []string{"fresh"}
		if len(live) > 0 {
			classes = append(classes, "live", "live", "live")
		}
		if len(finished) > 0 {
			classes = append(classes, "finished", "finished")
		}
		idc := rapid.SampledFrom(classes).Draw(t, "idclass")
		var id string
		switch idc {
		case "live":
			id = rapid.SampledFrom(live).Draw(t, "liveid")
		case "finished":
			id = rapid.SampledFrom(finished).Draw(t, "finid")
		default:
			id = freshId(t)
		}
		fromName := rapid.SampledFrom([]string{"mallory", "mallory", "bob"}).Draw(t, "from")
		from := h.Mallory
		if fromName == "bob" {
			from = h.B
		}
		typ := rapid.SampledFrom(allTypes).Draw(t, "mtype")
		scid := rapid.SampledFrom([]string{"100x1x0", "100:1:0", "200x2x0", "300x3x0", "300:3:0", "9x9x9"}).Draw(t, "iscid")
		chain := rapid.SampledFrom(h.Cfg.Chains).Draw(t, "ichain")
		key := hex.EncodeToString(sim.KeyFromName("inj" + fromName).PubKey().SerializeCompressed())
		payload := buildMessage(t, typ, id, scid, chain, key)
		badContent := rapid.IntRange(0, 3).Draw(t, "badContent") == 0
		if badContent {
			// well-formed JSON of the right type whose content fails the message's own validation
			// (wrong-length or non-hex key / txid): still only acceptable in the states that wait for it
			var x map[string]interface{}
			if json.Unmarshal(payload, &x) == nil {
				for _, f := range []string{"pubkey", "privkey", "tx_id"} {
					if _, ok := x[f]; ok {
						x[f] = rapid.SampledFrom([]string{"abcd", "zz", ""}).Draw(t, "badValue")
					}
				}
				payload, _ = json.Marshal(x)
			}
		}
		inj := &injected{Target: target, FromId: from.Id, FromName: fromName, Type: typ, SwapId: id, Payload: payload, IdClass: idc,
			Before: snapshotRecords(target), ActiveBefore: target.Svc.VerifActiveSwapIds(), SentBefore: len(h.W.Sent)}
		sort.Strings(inj.ActiveBefore)
		crashed, err := target.Deliver(from.Id, typ, payload)
		h.opf("inject(from=%s,type=%d,id=%s:%s,scid=%s,%s,bad=%v) err=%v", fromName, typ, idc, id[:6], scid, chain, badContent, err != nil)
		if badContent {
			h.class(fmt.Sprintf("inject-bad-content:%s:%s", fromName, idc))
		}
		h.class(fmt.Sprintf("inject:%s:%s", fromName, idc))
		if crashed {
			h.handleCrash(target, crashed)
			return
		}
		check(h, inj)
	}
}
