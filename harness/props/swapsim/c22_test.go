package swapsim

import (
	"fmt"
	"runtime"
	"strings"
	"testing"
	"time"

	"pgregory.net/rapid"

	"verifharness/sim"
	"verifharness/stats"
)

const tickGrace = 40 * time.Millisecond

func waitingForTaker(st string) bool {
	return st == "State_SwapInSender_AwaitClaimPayment" || st == "State_SwapOutReceiver_AwaitClaimInvoicePayment"
}

// countOpeningMsgs counts opening_tx_broadcasted messages the node handed to the transport for a swap.
func countOpeningMsgs(n *sim.Node, id string) int {
	c := 0
	for _, m := range n.SentBy() {
		if m.Type == mtOpeningTx && swapIdOfPayload(m.Payload) == id {
			c++
		}
	}
	return c
}

// liveRetransmitters counts the goroutines that currently run a RedundantMessenger retransmission loop.
func liveRetransmitters() int {
	buf := make([]byte, 8<<20)
	n := runtime.Stack(buf, true)
	c := 0
	for _, g := range strings.Split(string(buf[:n]), "\n\n") {
		// loops of a crashed process that are parked inside one of its (inert) fakes do not count
		if strings.Contains(g, "messages.(*RedundantMessenger).SendMessage.func1") && !strings.Contains(g, "sim.(*Proc).point") {
			c++
		}
	}
	return c
}

func TestC22RetransmissionStops(t *testing.T) {
	col := stats.Get("C22.hist")
	rapid.Check(t, func(t *rapid.T) {
		h := newHist(t, HistCfg{MaxSteps: 26, Chains: []string{"btc", "lbtc"}, Restarts: true, Timeouts: true, Drops: true, PayOutcomes: true, BigMines: true,
			Weights: map[string]int{"start": 0, "progress": 10, "deliver": 1, "settle": 0, "restart": 1, "mine": 2, "watcher": 2, "paid": 1, "timeout": 1, "payplan": 1, "resolve": 1, "tick": 6, "peer": 3, "offline": 3, "restartmaker": 2}})
		defer h.Close()
		// reboot both nodes with the real messages.Manager and harness-owned tick channels
		for _, n := range h.nodes() {
			n.UseRealManager = true
			n.Kill()
			if err := n.Boot(); err != nil {
				t.Fatalf("boot: %v", err)
			}
		}
		baseline := liveRetransmitters()
		// every live retransmission loop must belong to a swap that is waiting for the taker in a live process
		checkLoops := func(where string) {
			waiting := 0
			for _, n := range h.nodes() {
				if !h.alive(n) {
					continue
				}
				// the state machine's own (in-memory) state decides: after a failed store write it can be
				// ahead of the persisted record
				for _, id := range n.Svc.VerifActiveSwapIds() {
					if sm, err := n.Svc.GetActiveSwap(id); err == nil && sm != nil {
						st := string(sm.Current)
						// the announcing state itself counts: a failed store write can leave the machine there
						// with the announcement out and the retransmitter running
						if waitingForTaker(st) || st == "State_SwapInSender_SendTxBroadcastedMessage" || st == "State_SwapOutReceiver_SendTxBroadcastedMessage" {
							waiting++
						}
					}
				}
			}
			live := liveRetransmitters() - baseline
			for dl := time.Now().Add(80 * time.Millisecond); live > waiting && time.Now().Before(dl); live = liveRetransmitters() - baseline {
				time.Sleep(500 * time.Microsecond)
			}
			if live > waiting {
				h.stop = col.Violation(h.T, "C22/retransmitter-outlives-waiting-state", "%s: %d retransmission loops are alive, %d swaps wait for the taker\n%s", where, live, waiting, h.dump())
			}
		}
		afterChange := map[*sim.TickSender]int{} // ticks consumed after the swap left the waiting state
		ticksWhileWaiting, ticksAfter := 0, 0
		offerAll := func() {
			for _, n := range h.nodes() {
				alivePerSwap := map[string]int{}
				for _, ts := range n.Tickers {
					rec := recOf(n, ts.SwapId)
					st := ""
					if rec != nil {
						st = string(rec.Current)
					}
					// the state machine's own state decides (a failed store write leaves the record behind)
					if h.alive(n) && ts.Epoch == n.Proc.Epoch {
						if sm, err := n.Svc.GetActiveSwap(ts.SwapId); err == nil && sm != nil {
							st = string(sm.Current)
						}
					}
					announcing := st == "State_SwapInSender_SendTxBroadcastedMessage" || st == "State_SwapOutReceiver_SendTxBroadcastedMessage"
					waiting := (waitingForTaker(st) || announcing) && ts.Epoch == n.Proc.Epoch && h.alive(n)
					before := countOpeningMsgs(n, ts.SwapId)
					consumed := ts.OfferTick(tickGrace)
					if consumed {
						// wait for the retransmission itself to reach the transport
						dl := time.Now().Add(tickGrace)
						for countOpeningMsgs(n, ts.SwapId) == before && time.Now().Before(dl) {
							time.Sleep(200 * time.Microsecond)
						}
						// retransmitters of a dead process do not exist in reality; in the simulation their
						// goroutine may take the one already-due tick the property allows after Stop
						if ts.Epoch == n.Proc.Epoch {
							alivePerSwap[ts.SwapId]++
						}
					}
					if waiting {
						ticksWhileWaiting++
						if consumed {
							h.class("retransmitted-while-waiting")
						} else {
							h.class("no-retransmitter-while-waiting")
						}
						continue
					}
					ticksAfter++
					if consumed {
						afterChange[ts]++
						if afterChange[ts] > 1 {
							h.stop = col.Violation(h.T, "C22/retransmission-after-state-change:"+strings.TrimPrefix(st, "State_"),
								"%s: retransmitter of swap %s (epoch %d, current epoch %d) consumed %d ticks after the swap left the waiting state (now %q)\n%s",
								n.Name, ts.SwapId[:6], ts.Epoch, n.Proc.Epoch, afterChange[ts], st, h.dump())
							return
						}
					}
				}
				for id, c := range alivePerSwap {
					if c > 1 {
						h.stop = col.Violation(h.T, "C22/two-retransmitters", "%s has %d live retransmitters for swap %s\n%s", n.Name, c, id[:6], h.dump())
						return
					}
				}
			}
		}
		// a retransmitted copy is the announcement again: the same bytes as the first one, and (the secrets
		// monitor of C23) nothing in it that must not leave the node
		firstCopy := map[string][]byte{}
		tickedEarly := map[*sim.TickSender]bool{}
		seenMsgs := 0
		h.monitors = []func(*Hist){monitorC23(col), func(h *Hist) {
			for _, m := range h.W.Sent[seenMsgs:] {
				if m.Type != mtOpeningTx {
					continue
				}
				k := m.From + "/" + swapIdOfPayload(m.Payload)
				if f, ok := firstCopy[k]; !ok {
					firstCopy[k] = append([]byte{}, m.Payload...)
				} else if string(f) != string(m.Payload) {
					h.stop = col.Violation(h.T, "C22/retransmitted-copy-differs", "%s re-sent opening_tx_broadcasted with other content:\n first %s\n later %s\n%s", m.From, f, m.Payload, h.dump())
					return
				}
			}
			seenMsgs = len(h.W.Sent)
		}, func(h *Hist) {
			// a swap that has just started to wait for the taker gets a tick right away in half of the cases,
			// so that most histories contain a retransmission before the state changes again
			for _, n := range h.nodes() {
				if !h.alive(n) {
					continue
				}
				for _, ts := range n.Tickers {
					if ts.Epoch != n.Proc.Epoch || tickedEarly[ts] {
						continue
					}
					if sm, err := n.Svc.GetActiveSwap(ts.SwapId); err == nil && sm != nil && waitingForTaker(string(sm.Current)) {
						tickedEarly[ts] = true
						if rapid.Bool().Draw(t, "earlyTick") {
							offerAll()
							if !h.stop {
								checkLoops("early-tick")
							}
							h.opf("early-tick")
							return
						}
					}
				}
			}
		}}
		acts := h.stdActions()
		delete(acts, "settle")
		acts["tick"] = func() {
			offerAll()
			if !h.stop {
				checkLoops("tick")
			}
			h.opf("tick")
		}
		// the taker may be unreachable when the maker announces the opening transaction
		acts["offline"] = func() {
			n := h.nodes()[rapid.IntRange(0, 1).Draw(t, "offNode")]
			skip := rapid.SampledFrom([]int{0, 0, 1, 1, 1, 2, 3}).Draw(t, "offSkip")
			cnt := rapid.IntRange(1, 2).Draw(t, "offCount")
			var q []sim.FaultKind
			for i := 0; i < skip; i++ {
				q = append(q, sim.FaultNone)
			}
			for i := 0; i < cnt; i++ {
				q = append(q, sim.FaultBefore)
			}
			call := rapid.SampledFrom([]string{"msg.Send", "msg.Send", "store.UpdateData", "wallet.CreateCsvSpendingTransaction"}).Draw(t, "offCall")
			if call == "wallet.CreateCsvSpendingTransaction" {
				// a refund that keeps failing (fee spike, wallet locked): the swap sits in its claiming state
				for i := 0; i < 30; i++ {
					q = append(q, sim.FaultBefore)
				}
			}
			n.Faults[call] = q
			h.opf("offline(%s,%s,skip=%d,n=%d)", n.Name, call, skip, cnt)
			h.class("failure-planned:" + call)
		}
		// the maker is restarted after its swap has left the waiting state (cancel received, csv pending)
		acts["restartmaker"] = func() {
			for _, n := range h.nodes() {
				if !h.alive(n) {
					continue
				}
				for _, s := range n.Swaps() {
					if isTaker(s) || isTerminal(s.Current) || s.Data.OpeningTxBroadcasted == nil || waitingForTaker(string(s.Current)) {
						continue
					}
					h.opf("restart-maker(%s in %s)", n.Name, strings.TrimPrefix(string(s.Current), "State_"))
					h.class("maker-restarted-after-waiting")
					n.Kill()
					h.reboot(n, false)
					return
				}
			}
		}
		acts["peer"] = func() {
			for _, n := range h.nodes() {
				if !h.alive(n) {
					continue
				}
				for _, s := range n.Swaps() {
					if isTaker(s) || isTerminal(s.Current) || s.Data.OpeningTxBroadcasted == nil {
						continue
					}
					id := s.SwapId.String()
					what := rapid.SampledFrom([]string{"cancel", "coop-badkey", "invalid-coop"}).Draw(t, "peerAct")
					typ := mtCancel
					payload := buildMessage(t, mtCancel, id, "", "btc", "")
					switch what {
					case "coop-badkey":
						typ = mtCoopClose
						payload = buildMessage(t, mtCoopClose, id, "", "btc", "")
					case "invalid-coop":
						typ = mtCoopClose
						payload = []byte(fmt.Sprintf(`{"swap_id":"%s","message":"x","privkey":"abcd"}`, id))
					}
					crashed, _ := n.Deliver(s.Data.PeerNodeId, typ, payload)
					h.opf("peer(%s,%s,%s) crashed=%v", n.Name, what, id[:6], crashed)
					h.class("peer:" + what)
					h.handleCrash(n, crashed)
					return
				}
			}
		}
		h.run(acts)
		// in a third of the histories the taker now stays silent until the csv matures and the maker's
		// refund keeps failing: the swap has left the waiting state (it sits in its claiming state, retrying
		// or given up), so its retransmitter is gone however the claim goes
		if !h.stop && rapid.IntRange(0, 2).Draw(t, "failingRefundPhase") == 0 {
			for _, m := range h.W.PendingMsgs() {
				h.W.Drop(m)
			}
			for _, n := range h.nodes() {
				var q []sim.FaultKind
				for i := 0; i < 40; i++ {
					q = append(q, sim.FaultBefore)
				}
				n.Faults["wallet.CreateCsvSpendingTransaction"] = q
			}
			for _, c := range h.Cfg.Chains {
				h.W.Mine(c, csvFor(c))
			}
			h.opf("silent-until-csv(refund failing)")
			h.class("failing-refund-phase")
			for k := 0; k < 3 && !h.stop; k++ {
				h.actWatcherAll()
				for _, m := range h.W.PendingMsgs() {
					h.W.Drop(m)
				}
				offerAll()
				if !h.stop {
					checkLoops("failing-refund")
				}
			}
		}
		// drive everything to the end and keep ticking: nothing may retransmit any more
		if !h.stop {
			closureSilentPeer(h, 3)
			for i := 0; i < 3 && !h.stop; i++ {
				offerAll()
			}
			if !h.stop {
				checkLoops("end")
			}
		}
		nt := ticksWhileWaiting >= 1 && ticksAfter >= 2
		col.Case(h.Key(), nt, h.Ops, h.classList()...)
	})
}
