package swapsim

import (
	"encoding/json"
	"testing"

	"github.com/elementsproject/peerswap/swap"
	"pgregory.net/rapid"

	"verifharness/sim"
	"verifharness/stats"
)

type anchorKey struct{ node, id string }

// monitorC13: the Liquid v7 payment-window anchor is on disk before the taker's
// pubkey leaves the node, never changes, and no payment happens without it.
func monitorC13(col *stats.Collector, anchors map[anchorKey]uint32, seenWrites map[string]int, seenPays map[string]int) func(h *Hist) {
	sentAt := map[anchorKey]int{}
	return func(h *Hist) {
		for _, m := range h.W.Sent[h.sentSeen:] {
			if m.Type != mtSwapOutRequest && m.Type != mtSwapInAgreement {
				continue
			}
			n := h.W.Nodes[m.From]
			id := swapIdOfPayload(m.Payload)
			// the record as it was on disk when the message was handed to the transport
			var last *sim.StoreWrite
			for _, w := range n.Writes {
				if w.SwapId == id && w.TraceIdx < m.TraceIdx {
					last = w
				}
			}
			var rec swap.SwapStateMachine
			if last != nil {
				_ = json.Unmarshal(last.JSON, &rec)
			}
			if last == nil || rec.Data == nil {
				// nothing on disk at all: only acceptable for non-liquid swaps, decided below from the message
				var probe struct {
					Asset string `json:"asset"`
				}
				_ = json.Unmarshal(m.Payload, &probe)
				if m.Type == mtSwapOutRequest && probe.Asset != "" {
					h.stop = col.Violation(h.T, "C13/pubkey-sent-before-any-record", "%s sent its pubkey for liquid swap %s with no record on disk\n%s", n.Name, id[:6], h.dump())
					return
				}
				continue
			}
			if rec.Data.GetChain() != "lbtc" || rec.Data.GetProtocolVersion() != 7 {
				continue
			}
			h.class("liquid-pubkey-sent")
			if !rec.Data.StartingBlockHeightSet {
				h.stop = col.Violation(h.T, "C13/pubkey-sent-before-anchor", "%s sent message %d (pubkey) for liquid v7 swap %s while the persisted record (state %s) has no anchor\n%s", n.Name, m.Type, id[:6], rec.Current, h.dump())
				return
			}
			k := anchorKey{n.Name, id}
			if old, ok := anchors[k]; ok && old != rec.Data.StartingBlockHeight {
				h.stop = col.Violation(h.T, "C13/anchor-changed", "%s swap %s anchor %d -> %d\n%s", n.Name, id[:6], old, rec.Data.StartingBlockHeight, h.dump())
				return
			}
			anchors[k] = rec.Data.StartingBlockHeight
			if _, ok := sentAt[k]; !ok {
				sentAt[k] = m.TraceIdx
			}
		}
		for _, n := range h.nodes() {
			for i := seenWrites[n.Name]; i < len(n.Writes); i++ {
				w := n.Writes[i]
				k := anchorKey{n.Name, w.SwapId}
				want, ok := anchors[k]
				if !ok || w.TraceIdx < sentAt[k] {
					continue
				}
				var rec swap.SwapStateMachine
				_ = json.Unmarshal(w.JSON, &rec)
				if rec.Data == nil || !rec.Data.StartingBlockHeightSet || rec.Data.StartingBlockHeight != want {
					h.stop = col.Violation(h.T, "C13/anchor-changed", "%s swap %s: record written in state %s carries anchor (%v,%d), first sent with %d\n%s", n.Name, w.SwapId[:6], w.State, rec.Data != nil && rec.Data.StartingBlockHeightSet, rec.Data.StartingBlockHeight, want, h.dump())
					return
				}
			}
			seenWrites[n.Name] = len(n.Writes)
			for i := seenPays[n.Name]; i < len(n.PayCalls); i++ {
				pc := n.PayCalls[i]
				if pc.Kind != "claim" {
					continue
				}
				for _, s := range n.Swaps() {
					if s.Data == nil || s.Data.OpeningTxBroadcasted == nil || s.Data.OpeningTxBroadcasted.Payreq != pc.Payreq {
						continue
					}
					if s.Data.GetChain() == "lbtc" && s.Data.GetProtocolVersion() == 7 {
						h.class("liquid-claim-payment")
						if !s.Data.StartingBlockHeightSet {
							h.stop = col.Violation(h.T, "C13/payment-without-anchor", "%s paid for liquid swap %s without a stored anchor\n%s", n.Name, s.SwapId.String()[:6], h.dump())
							return
						}
					}
				}
			}
			seenPays[n.Name] = len(n.PayCalls)
		}
	}
}

func TestC13AnchorBeforePubkey(t *testing.T) {
	col := stats.Get("C13.hist")
	rapid.Check(t, func(t *rapid.T) {
		h := newHist(t, HistCfg{MaxSteps: 26, Chains: []string{"lbtc"}, Restarts: true, Crashes: true, Faults: true, PayOutcomes: true, Timeouts: true, Drops: true, HeightLags: true, RecoverFaults: true,
			Weights: map[string]int{"start": 1, "progress": 12, "deliver": 3, "settle": 1, "restart": 2, "mine": 2, "watcher": 1, "paid": 1, "timeout": 1, "payplan": 1, "resolve": 1, "fault": 3, "armcrash": 3, "heightlag": 2}})
		defer h.Close()
		h.monitors = []func(*Hist){monitorC13(col, map[anchorKey]uint32{}, map[string]int{}, map[string]int{})}
		acts := h.stdActions()
		acts["fault"] = func() {
			n := h.nodes()[rapid.IntRange(0, 1).Draw(t, "fnode")]
			call := rapid.SampledFrom([]string{"watcher.GetBlockHeight", "watcher.GetBlockHeight", "store.UpdateData", "msg.Send"}).Draw(t, "fcall")
			skip := rapid.IntRange(0, 3).Draw(t, "fskip")
			q := make([]sim.FaultKind, 0, skip+1)
			for i := 0; i < skip; i++ {
				q = append(q, sim.FaultNone)
			}
			q = append(q, sim.FaultBefore)
			n.Faults[call] = q
			h.opf("fault(%s,%s,skip=%d)", n.Name, call, skip)
			h.class("fault:" + call)
		}
		h.run(acts)
		nt := h.Classes["liquid-pubkey-sent"] && (h.Classes["crash-in-step"] || h.Classes["restart"] || h.Classes["msg-duplicated"])
		col.Case(h.Key(), nt, h.Ops, h.classList()...)
	})
}
