package swapsim

import (
	"fmt"
	"strings"
	"testing"
	"time"

	"github.com/elementsproject/peerswap/swap"
	"pgregory.net/rapid"

	"verifharness/sim"
	"verifharness/stats"
)

func sentCancelFor(n *sim.Node, id string) bool {
	for _, m := range n.SentBy() {
		if m.Type == mtCancel && swapIdOfPayload(m.Payload) == id {
			return true
		}
	}
	return false
}

func sentTypeFor(n *sim.Node, id string, typ int) bool {
	for _, m := range n.SentBy() {
		if m.Type == typ && !m.Failed && swapIdOfPayload(m.Payload) == id {
			return true
		}
	}
	return false
}

// TestC17NegotiationTimeouts: after the negotiation time-out has passed (all
// armed time-outs fired), a requester without agreement and a swap-out
// responder with an unpaid fee invoice are cancelled and have told the peer.
func TestC17NegotiationTimeouts(t *testing.T) {
	col := stats.Get("C17.hist")
	rapid.Check(t, func(t *rapid.T) {
		h := newHist(t, HistCfg{MaxSteps: 12, Chains: []string{"btc", "lbtc"}, Restarts: true, Timeouts: true, Drops: true,
			Weights: map[string]int{"start": 0, "progress": 0, "deliver": 6, "settle": 0, "restart": 3, "mine": 1, "watcher": 0, "paid": 0, "timeout": 2, "holdfee": 3}})
		defer h.Close()
		acts := h.stdActions()
		// the fee invoice is only ever paid when the history lets alice's agreement handling run;
		// "holdfee" makes the initiator's fee payment fail so that the responder keeps waiting
		acts["holdfee"] = func() {
			h.A.PayPlan["fee"] = []sim.PayOutcome{sim.PayFailClean, sim.PayFailClean}
			h.opf("holdfee")
		}
		delete(acts, "settle")
		delete(acts, "progress")
		delete(acts, "watcher")
		delete(acts, "paid")
		h.run(acts)
		// the clock passes the negotiation time-out: every armed time-out that was not cancelled fires
		for _, n := range h.nodes() {
			if !h.alive(n) {
				continue
			}
			for i := range n.Timeouts.Snapshot() {
				fired, _ := n.FireTimeout(i)
				if fired {
					h.class("timeout-fired")
				}
			}
		}
		nt := h.Classes["timeout-fired"] || h.Classes["restart"]
		for _, n := range h.nodes() {
			for _, s := range n.Swaps() {
				id := s.SwapId.String()
				role := fmt.Sprintf("%s-%s", s.Type, s.Role)
				requester := s.Role == swap.SWAPROLE_SENDER
				peerCancelled := s.Data != nil && s.Data.Cancel != nil
				switch {
				case requester:
					gotAgreement := s.Data.SwapInAgreement != nil || s.Data.SwapOutAgreement != nil
					requestSent := sentTypeFor(n, id, mtSwapInRequest) || sentTypeFor(n, id, mtSwapOutRequest)
					if gotAgreement || !requestSent {
						continue
					}
					h.class("requester-without-agreement")
					if s.Current != swap.State_SwapCanceled {
						h.stop = col.Violation(h.T, "C17/requester-not-cancelled:"+role+":"+strings.TrimPrefix(string(s.Current), "State_"),
							"%s sent a request for swap %s, got no agreement, the time-out passed, but the swap is in %q\n%s", n.Name, id[:6], s.Current, h.dump())
						return
					}
					if !peerCancelled && !sentCancelFor(n, id) {
						h.stop = col.Violation(h.T, "C17/requester-silent-cancel:"+role+":"+howEntered(n, id),
							"%s cancelled swap %s after no agreement arrived but never sent cancel to the peer (path %s)\n%s", n.Name, id[:6], howEntered(n, id), h.dump())
						return
					}
				case s.Type == swap.SWAPTYPE_OUT && s.Role == swap.SWAPROLE_RECEIVER:
					if s.Data.SwapOutAgreement == nil {
						continue
					}
					inv := h.W.LN.Invoices[s.Data.SwapOutAgreement.Payreq]
					if inv == nil || inv.Paid {
						continue
					}
					h.class("responder-fee-unpaid")
					if s.Current != swap.State_SwapCanceled {
						h.stop = col.Violation(h.T, "C17/responder-not-cancelled:"+strings.TrimPrefix(string(s.Current), "State_"),
							"%s issued a fee invoice for swap %s that was not paid before expiry, but the swap is in %q\n%s", n.Name, id[:6], s.Current, h.dump())
						return
					}
					if !peerCancelled && !sentCancelFor(n, id) {
						h.stop = col.Violation(h.T, "C17/responder-silent-cancel:"+howEntered(n, id),
							"%s failed swap %s (fee invoice unpaid) without telling the peer (path %s)\n%s", n.Name, id[:6], howEntered(n, id), h.dump())
						return
					}
				}
			}
		}
		col.Case(h.Key(), nt, h.Ops, h.classList()...)
	})
}

// TestC17ClockedTimeouts: the same property with a harness-owned clock that honours the durations the
// node arms. Simulated time advances only through "advance" actions; an armed time-out fires when its own
// duration has elapsed since it was armed (never earlier), time-outs of a dead process are gone. Deadlines
// of the property: request sent + 10 min for a requester without agreement, agreement (fee invoice) sent +
// 10 min for a swap-out responder whose fee invoice is unpaid. At the latest deadline plus one second the
// states are judged as in TestC17NegotiationTimeouts.
func TestC17ClockedTimeouts(t *testing.T) {
	col := stats.Get("C17.clocked")
	rapid.Check(t, func(t *rapid.T) {
		h := newHist(t, HistCfg{MaxSteps: 12, Chains: []string{"btc", "lbtc"}, Restarts: true, Drops: true,
			Weights: map[string]int{"start": 0, "deliver": 5, "restart": 3, "mine": 1, "holdfee": 3, "advance": 5}})
		defer h.Close()
		var clock time.Duration
		armedAt := map[*swap.VerifTimeout]time.Duration{}
		fired := map[*swap.VerifTimeout]bool{}
		t0 := map[string]time.Duration{} // node/swap -> when its waiting period began
		seenSent := 0
		observe := func() {
			for _, n := range h.nodes() {
				if !h.alive(n) {
					continue
				}
				for _, to := range n.Timeouts.Snapshot() {
					if _, ok := armedAt[to]; !ok {
						armedAt[to] = clock
					}
				}
			}
			for _, m := range h.W.Sent[seenSent:] {
				if m.Failed {
					continue
				}
				k := m.From + "/" + swapIdOfPayload(m.Payload)
				switch m.Type {
				case mtSwapInRequest, mtSwapOutRequest, mtSwapOutAgreement:
					if _, ok := t0[k]; !ok {
						t0[k] = clock
					}
				}
			}
			seenSent = len(h.W.Sent)
		}
		fireDue := func() {
			for progress := true; progress; {
				progress = false
				for _, n := range h.nodes() {
					if !h.alive(n) {
						continue
					}
					for i, to := range n.Timeouts.Snapshot() {
						if at, ok := armedAt[to]; ok && !fired[to] && at+to.Duration <= clock {
							fired[to] = true
							if f, _ := n.FireTimeout(i); f {
								h.class("timeout-fired")
								h.opf("timeout-due(%s,%s,armed@%v+%v)", n.Name, to.SwapId[:6], at, to.Duration)
								progress = true
							}
							observe()
						}
					}
				}
			}
		}
		h.monitors = []func(*Hist){func(*Hist) { observe() }}
		acts := h.stdActions()
		for _, k := range []string{"settle", "progress", "watcher", "paid", "timeout"} {
			delete(acts, k)
		}
		acts["holdfee"] = func() {
			h.A.PayPlan["fee"] = []sim.PayOutcome{sim.PayFailClean, sim.PayFailClean}
			h.opf("holdfee")
		}
		acts["advance"] = func() {
			d := rapid.SampledFrom([]time.Duration{time.Second, 30 * time.Second, time.Minute, 4 * time.Minute, 9 * time.Minute, 10 * time.Minute, 11 * time.Minute}).Draw(t, "dt")
			clock += d
			h.opf("advance(%v)=%v", d, clock)
			fireDue()
		}
		h.run(acts)
		observe()
		// move to one second past the latest deadline of the property
		last := clock
		for _, at := range t0 {
			if at+10*time.Minute+time.Second > last {
				last = at + 10*time.Minute + time.Second
			}
		}
		clock = last
		fireDue()
		nt := h.Classes["timeout-fired"] || h.Classes["restart"]
		for _, n := range h.nodes() {
			for _, s := range n.Swaps() {
				id := s.SwapId.String()
				role := fmt.Sprintf("%s-%s", s.Type, s.Role)
				peerCancelled := s.Data != nil && s.Data.Cancel != nil
				start, waited := t0[n.Name+"/"+id]
				switch {
				case s.Role == swap.SWAPROLE_SENDER:
					gotAgreement := s.Data.SwapInAgreement != nil || s.Data.SwapOutAgreement != nil
					if gotAgreement || !waited {
						continue
					}
					h.class("requester-without-agreement")
					if s.Current != swap.State_SwapCanceled {
						h.stop = col.Violation(h.T, "C17/clocked/requester-not-cancelled:"+role+":"+strings.TrimPrefix(string(s.Current), "State_"),
							"%s sent the request for swap %s at %v, got no agreement; at %v (more than 10 min later) the swap is in %q\n%s", n.Name, id[:6], start, clock, s.Current, h.dump())
						return
					}
					if !peerCancelled && !sentCancelFor(n, id) {
						h.stop = col.Violation(h.T, "C17/clocked/requester-silent-cancel:"+role, "%s cancelled swap %s but never told the peer\n%s", n.Name, id[:6], h.dump())
						return
					}
				case s.Type == swap.SWAPTYPE_OUT && s.Role == swap.SWAPROLE_RECEIVER:
					if s.Data.SwapOutAgreement == nil || !waited {
						continue
					}
					inv := h.W.LN.Invoices[s.Data.SwapOutAgreement.Payreq]
					if inv == nil || inv.Paid {
						continue
					}
					h.class("responder-fee-unpaid")
					if s.Current != swap.State_SwapCanceled {
						h.stop = col.Violation(h.T, "C17/clocked/responder-not-cancelled:"+strings.TrimPrefix(string(s.Current), "State_"),
							"%s issued the fee invoice for swap %s at %v; it is unpaid and at %v (past its 10 min expiry) the swap is in %q\n%s", n.Name, id[:6], start, clock, s.Current, h.dump())
						return
					}
					if !peerCancelled && !sentCancelFor(n, id) {
						h.stop = col.Violation(h.T, "C17/clocked/responder-silent-cancel", "%s failed swap %s (fee invoice unpaid) without telling the peer\n%s", n.Name, id[:6], h.dump())
						return
					}
				}
			}
		}
		col.Case(h.Key(), nt, h.Ops, h.classList()...)
	})
}
