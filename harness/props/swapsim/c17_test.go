package swapsim

import (
	"fmt"
	"strings"
	"testing"

	"github.com/elementsproject/peerswap/swap"
	"pgregory.net/rapid"

	"verifharness/sim"
	"verifharness/stats"
)

func sentCancelFor(n *sim.Node, id string) bool {
	for _, m := range n.SentBy() {
		if m.Type == mtCancel && swapIdOfPayload(m.Payload) == id {
			return true
		}
	}
	return false
}

func sentTypeFor(n *sim.Node, id string, typ int) bool {
	for _, m := range n.SentBy() {
		if m.Type == typ && !m.Failed && swapIdOfPayload(m.Payload) == id {
			return true
		}
	}
	return false
}

// TestC17NegotiationTimeouts: after the negotiation time-out has passed (all
// armed time-outs fired), a requester without agreement and a swap-out
// responder with an unpaid fee invoice are cancelled and have told the peer.
func TestC17NegotiationTimeouts(t *testing.T) {
	col := stats.Get("C17.hist")
	rapid.Check(t, func(t *rapid.T) {
		h := newHist(t, HistCfg{MaxSteps: 12, Chains: []string{"btc", "lbtc"}, Restarts: true, Timeouts: true, Drops: true,
			Weights: map[string]int{"start": 0, "progress": 0, "deliver": 6, "settle": 0, "restart": 3, "mine": 1, "watcher": 0, "paid": 0, "timeout": 2, "holdfee": 3}})
		defer h.Close()
		acts := h.stdActions()
		// the fee invoice is only ever paid when the history lets alice's agreement handling run;
		// "holdfee" makes the initiator's fee payment fail so that the responder keeps waiting
		acts["holdfee"] = func() {
			h.A.PayPlan["fee"] = []sim.PayOutcome{sim.PayFailClean, sim.PayFailClean}
			h.opf("holdfee")
		}
		delete(acts, "settle")
		delete(acts, "progress")
		delete(acts, "watcher")
		delete(acts, "paid")
		h.run(acts)
		// the clock passes the negotiation time-out: every armed time-out that was not cancelled fires
		for _, n := range h.nodes() {
			if !h.alive(n) {
				continue
			}
			for i := range n.Timeouts.Snapshot() {
				fired, _ := n.FireTimeout(i)
				if fired {
					h.class("timeout-fired")
				}
			}
		}
		nt := h.Classes["timeout-fired"] || h.Classes["restart"]
		for _, n := range h.nodes() {
			for _, s := range n.Swaps() {
				id := s.SwapId.String()
				role := fmt.Sprintf("%s-%s", s.Type, s.Role)
				requester := s.Role == swap.SWAPROLE_SENDER
				peerCancelled := s.Data != nil && s.Data.Cancel != nil
				switch {
				case requester:
					gotAgreement := s.Data.SwapInAgreement != nil || s.Data.SwapOutAgreement != nil
					requestSent := sentTypeFor(n, id, mtSwapInRequest) || sentTypeFor(n, id, mtSwapOutRequest)
					if gotAgreement || !requestSent {
						continue
					}
					h.class("requester-without-agreement")
					if s.Current != swap.State_SwapCanceled {
						h.stop = col.Violation(h.T, "C17/requester-not-cancelled:"+role+":"+strings.TrimPrefix(string(s.Current), "State_"),
							"%s sent a request for swap %s, got no agreement, the time-out passed, but the swap is in %q\n%s", n.Name, id[:6], s.Current, h.dump())
						return
					}
					if !peerCancelled && !sentCancelFor(n, id) {
						h.stop = col.Violation(h.T, "C17/requester-silent-cancel:"+role+":"+howEntered(n, id),
							"%s cancelled swap %s after no agreement arrived but never sent cancel to the peer (path %s)\n%s", n.Name, id[:6], howEntered(n, id), h.dump())
						return
					}
				case s.Type == swap.SWAPTYPE_OUT && s.Role == swap.SWAPROLE_RECEIVER:
					if s.Data.SwapOutAgreement == nil {
						continue
					}
					inv := h.W.LN.Invoices[s.Data.SwapOutAgreement.Payreq]
					if inv == nil || inv.Paid {
						continue
					}
					h.class("responder-fee-unpaid")
					if s.Current != swap.State_SwapCanceled {
						h.stop = col.Violation(h.T, "C17/responder-not-cancelled:"+strings.TrimPrefix(string(s.Current), "State_"),
							"%s issued a fee invoice for swap %s that was not paid before expiry, but the swap is in %q\n%s", n.Name, id[:6], s.Current, h.dump())
						return
					}
					if !peerCancelled && !sentCancelFor(n, id) {
						h.stop = col.Violation(h.T, "C17/responder-silent-cancel:"+howEntered(n, id),
							"%s failed swap %s (fee invoice unpaid) without telling the peer (path %s)\n%s", n.Name, id[:6], howEntered(n, id), h.dump())
						return
					}
				}
			}
		}
		col.Case(h.Key(), nt, h.Ops, h.classList()...)
	})
}
