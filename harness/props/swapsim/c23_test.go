package swapsim

import (
	"bytes"
	"encoding/base64"
	"encoding/hex"
	"strings"
	"testing"

	"pgregory.net/rapid"

	"verifharness/stats"
)

type secret struct {
	name    string
	raw     []byte
	allowIn func(typ int, swapId string) bool
}

func containsSecret(payload []byte, raw []byte) bool {
	if len(raw) == 0 {
		return false
	}
	hx := hex.EncodeToString(raw)
	return bytes.Contains(payload, raw) ||
		bytes.Contains(bytes.ToLower(payload), []byte(hx)) ||
		bytes.Contains(payload, []byte(base64.StdEncoding.EncodeToString(raw))) ||
		bytes.Contains(payload, []byte(base64.RawStdEncoding.EncodeToString(raw))) ||
		bytes.Contains(payload, []byte(base64.URLEncoding.EncodeToString(raw)))
}

// monitorC23 scans every message handed to the transport for secrets of its sender.
func monitorC23(col *stats.Collector) func(h *Hist) {
	return func(h *Hist) {
		for _, m := range h.W.Sent[h.sentSeen:] {
			n := h.W.Nodes[m.From]
			msgSwap := swapIdOfPayload(m.Payload)
			var secrets []secret
			for _, s := range n.Swaps() {
				if s.Data == nil {
					continue
				}
				id := s.SwapId.String()
				taker := isTaker(s)
				secrets = append(secrets, secret{name: "swap private key of " + id[:6], raw: s.Data.PrivkeyBytes,
					allowIn: func(typ int, sid string) bool { return taker && typ == mtCoopClose && sid == id }})
				if s.Data.ClaimPreimage != "" {
					if pb, err := hex.DecodeString(s.Data.ClaimPreimage); err == nil {
						secrets = append(secrets, secret{name: "claim preimage of " + id[:6], raw: pb, allowIn: func(int, string) bool { return false }})
					}
				}
				if s.Data.FeePreimage != "" {
					if pb, err := hex.DecodeString(s.Data.FeePreimage); err == nil {
						secrets = append(secrets, secret{name: "fee preimage of " + id[:6], raw: pb, allowIn: func(int, string) bool { return false }})
					}
				}
				if s.Data.BlindingKeyHex != "" {
					if kb, err := hex.DecodeString(s.Data.BlindingKeyHex); err == nil {
						secrets = append(secrets, secret{name: "blinding key of " + id[:6], raw: kb,
							allowIn: func(typ int, sid string) bool { return typ == mtOpeningTx && sid == id }})
					}
				}
			}
			// every preimage of an invoice this node created (fee and claim), known to the simulated lightning node
			for _, inv := range h.W.LN.Invoices {
				if inv.CreatedBy == n.Name && inv.Preimage != "" {
					if pb, err := hex.DecodeString(inv.Preimage); err == nil {
						secrets = append(secrets, secret{name: "invoice preimage (" + inv.Label[len(inv.Label)-5:] + ")", raw: pb, allowIn: func(int, string) bool { return false }})
					}
				}
			}
			secrets = append(secrets, secret{name: "node key", raw: n.Key.Serialize(), allowIn: func(int, string) bool { return false }})
			for _, sc := range secrets {
				if containsSecret(m.Payload, sc.raw) && !sc.allowIn(m.Type, msgSwap) {
					key := "C23/secret-in-message:" + strings.Fields(sc.name)[0] + "-" + strings.Fields(sc.name)[1]
					h.stop = col.Violation(h.T, key, "%s sent message type %d (swap %s) containing its %s\npayload: %s\n%s", n.Name, m.Type, msgSwap[:min(6, len(msgSwap))], sc.name, truncate(string(m.Payload), 400), h.dump())
					return
				}
			}
			if m.Type == mtCoopClose {
				h.class("coop-close-sent")
			}
		}
	}
}

func TestC23NoSecretsLeave(t *testing.T) {
	col := stats.Get("C23.hist")
	rapid.Check(t, func(t *rapid.T) {
		h := newHist(t, HistCfg{MaxSteps: 30, Chains: []string{"btc", "lbtc"}, Restarts: true, Crashes: true, Faults: true, PayOutcomes: true, Timeouts: true, Drops: true,
			LNDStyle: rapid.Bool().Draw(t, "lnd"),
			Weights:  map[string]int{"start": 0, "progress": 14, "deliver": 1, "settle": 1, "restart": 1, "mine": 2, "watcher": 1, "paid": 1, "timeout": 2, "payplan": 2, "resolve": 1, "fault": 2, "armcrash": 1}})
		defer h.Close()
		h.monitors = []func(*Hist){monitorC23(col)}
		h.run(h.stdActions())
		if !h.stop {
			closureSilentPeer(h, 2)
			h.afterStep()
		}
		past := false
		for _, n := range h.nodes() {
			for _, s := range n.Swaps() {
				if s.Data != nil && (s.Data.SwapInAgreement != nil || s.Data.SwapOutAgreement != nil) {
					past = true
				}
			}
		}
		col.Case(h.Key(), past, h.Ops, h.classList()...)
	})
}
