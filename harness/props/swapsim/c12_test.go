package swapsim

import (
	"encoding/hex"
	"encoding/json"
	"fmt"
	"math"
	"math/big"
	"testing"

	"github.com/elementsproject/peerswap/premium"
	"github.com/elementsproject/peerswap/swap"
	"pgregory.net/rapid"

	"verifharness/sim"
	"verifharness/stats"
)

func csvFor(chain string) uint32 {
	if chain == "btc" {
		return 1008
	}
	return 10080
}

func lastSentOfType(n *sim.Node, typ int) *sim.SentMsg {
	var out *sim.SentMsg
	for _, m := range n.SentBy() {
		if m.Type == typ {
			out = m
		}
	}
	return out
}

func genPremium(t *rapid.T, limit int64) int64 {
	return rapid.OneOf(
		rapid.SampledFrom([]int64{0, 1, -1, limit, limit + 1, limit - 1, -limit, 1<<63 - 1, -1 << 63, 1 << 62, -1000}),
		rapid.Int64Range(-5000, 5000),
	).Draw(t, "premium")
}

// TestC12InitiatorBounds: a swap initiator never pays / locks more than it agreed to,
// whatever premium, fee invoice or claim invoice the (scripted) responder sends.
func TestC12InitiatorBounds(t *testing.T) {
	col := stats.Get("C12.initiator")
	rapid.Check(t, func(t *rapid.T) {
		sim.CaseStart(t)
		w := sim.NewWorld()
		defer w.Close()
		a := w.AddNode("alice")
		m := w.AddNode("mallory")
		spendable := rapid.SampledFrom([]uint64{5_000_000_000, 1_002_000_000, 1_001_000_000, 1_000_999_999, 1_000_000_000}).Draw(t, "spendable")
		ch := w.LN.AddChannel("300x3x0", a.Id, m.Id, spendable, 5_000_000_000)
		_ = ch
		a.OpeningFee = rapid.SampledFrom([]uint64{1000, 1000, 333, 1, 0}).Draw(t, "feeEstimate")
		if err := a.Boot(); err != nil {
			t.Fatal(err)
		}
		chain := rapid.SampledFrom([]string{"btc", "lbtc"}).Draw(t, "chain")
		out := rapid.Bool().Draw(t, "swapOut")
		amount := rapid.SampledFrom([]uint64{1_000_000, 1_000_000, 100_000, 999_999}).Draw(t, "amount")
		limitPPM := rapid.SampledFrom([]int64{0, 1000, 20_000, 1_000_000, -1000}).Draw(t, "limitPPM")
		limit := new(big.Int).Mul(bigU(amount), big.NewInt(limitPPM))
		limit.Quo(limit, big.NewInt(1_000_000))
		var sm *swap.SwapStateMachine
		var err error
		w.Step(a, func() {
			if out {
				sm, err = a.Svc.SwapOut(m.Id, chain, "300x3x0", a.Id, amount, limitPPM)
			} else {
				sm, err = a.Svc.SwapIn(m.Id, chain, "300x3x0", a.Id, amount, limitPPM)
			}
		})
		if err != nil || sm == nil {
			t.Skip("initiation refused")
		}
		id := sm.SwapId.String()
		makerKey := sim.KeyFromName("mallory-swap")
		makerPub := hex.EncodeToString(makerKey.PubKey().SerializeCompressed())
		prem := genPremium(t, limit.Int64())
		classes := []string{fmt.Sprintf("out:%v", out), "chain:" + chain}
		desc := fmt.Sprintf("out=%v chain=%s amount=%d limitPPM=%d(limit %s) premium=%d feeEstimate=%d spendable=%d", out, chain, amount, limitPPM, limit, prem, a.OpeningFee, spendable)
		if out {
			req := lastSentOfType(a, mtSwapOutRequest)
			var rq swap.SwapOutRequestMessage
			_ = json.Unmarshal(req.Payload, &rq)
			if big.NewInt(rq.PremiumLimit).Cmp(limit) != 0 || rq.Amount != amount {
				t.Fatalf("VKEY[C12/request-limit] request carries limit %d amount %d, want %s / %d", rq.PremiumLimit, rq.Amount, limit, amount)
			}
			// fee invoice around 3x the initiator's own estimate (msat granularity)
			est := a.OpeningFee
			feeMsat := rapid.OneOf(
				rapid.SampledFrom([]uint64{3 * est * 1000, 3*est*1000 + 999, 3*est*1000 + 1000, (3*est + 1) * 1000, est * 1000, 0, 1, 1_000_000, 2_000_000}),
				rapid.Uint64Range(0, 4_000_000),
				// beyond anything a sane invoice carries, where signed / wrapping arithmetic misbehaves
				rapid.SampledFrom([]uint64{1 << 63, 1<<63 + 999, 1<<63 - 1, math.MaxUint64 - 999, math.MaxUint64, math.MaxUint64 - amount*1000 + 1, math.MaxUint64 - amount*1000 + 1001}),
			).Draw(t, "feeMsat")
			feeInv := &sim.Invoice{Payee: m.Id, Hash: sha256hex([]byte("feepre" + id)), AmountMsat: feeMsat, CLTV: 18, Expiry: 600, Label: "fee", Preimage: hex.EncodeToString([]byte("feepre" + id + "0123456789abcdef0123456789")[:32]), CreatedBy: "mallory"}
			feeInv.Hash = sha256hex(mustHex(feeInv.Preimage))
			feePayreq := w.LN.RegisterInvoice(feeInv)
			agr, _ := json.Marshal(&swap.SwapOutAgreementMessage{ProtocolVersion: 7, SwapId: mustSwapId(id), Pubkey: makerPub, Payreq: feePayreq, Premium: prem})
			a.Deliver(m.Id, mtSwapOutAgreement, agr)
			feePaid := false
			for _, pc := range a.PayCalls {
				if pc.Kind == "fee" && pc.Payreq == feePayreq {
					feePaid = true
				}
			}
			if feePaid {
				classes = append(classes, "fee-paid")
				if feeMsat/1000 > 3*est {
					t.Fatalf("VKEY[C12/fee-above-3x-estimate] %s: fee invoice of %d msat paid, estimate %d sat", desc, feeMsat, est)
				}
				need := new(big.Int).Add(new(big.Int).Mul(bigU(amount), big.NewInt(1000)), bigU(feeMsat))
				if need.Cmp(bigU(spendable)) > 0 {
					t.Fatalf("VKEY[C12/fee-paid-without-capacity] %s: fee paid although channel can carry %d < amount+fee %s msat", desc, spendable, need)
				}
				if big.NewInt(prem).Cmp(limit) > 0 {
					t.Fatalf("VKEY[C12/premium-above-limit] %s: fee paid although premium %d > limit %s", desc, prem, limit)
				}
			} else {
				classes = append(classes, "fee-refused")
				return
			}
			// opening transaction and claim invoice from the scripted maker
			claimPre := hex.EncodeToString([]byte("claimpre" + id + "0123456789abcdef0123456789")[:32])
			claimHash := sha256hex(mustHex(claimPre))
			want := new(big.Int).Add(bigU(amount), big.NewInt(prem))
			want.Mul(want, big.NewInt(1000))
			claimMsat := rapid.OneOf(
				rapid.SampledFrom([]uint64{amount * 1000, (amount + 1) * 1000, amount*1000 + 1, amount * 1000 * 2, 0}),
				rapid.Just(uint64(int64(amount)+prem)*1000),
				rapid.Just(uint64(int64(amount)+prem)*1000+1),
			).Draw(t, "claimMsat")
			cltv := int64(100)
			if chain == "lbtc" {
				cltv = 20
			}
			claimInv := &sim.Invoice{Payee: m.Id, Hash: claimHash, AmountMsat: claimMsat, CLTV: cltv, Expiry: 3600, Label: "claim", Preimage: claimPre, CreatedBy: "mallory"}
			claimPayreq := w.LN.RegisterInvoice(claimInv)
			params := &swap.OpeningParams{TakerPubkey: rq.Pubkey, MakerPubkey: makerPub, ClaimPaymentHash: claimHash, Amount: amount, CSV: csvFor(chain)}
			txid, _, vout, err := w.ExternalOpening(chain, sim.TokenScript(params), amount, 0, nil)
			if err != nil {
				t.Fatalf("external opening: %v", err)
			}
			otb, _ := json.Marshal(&swap.OpeningTxBroadcastedMessage{SwapId: mustSwapId(id), Payreq: claimPayreq, TxId: txid, ScriptOut: vout, BlindingKey: sha256hex([]byte("bk"))})
			a.Deliver(m.Id, mtOpeningTx, otb)
			w.Mine(chain, 3)
			for _, ev := range a.DueWatcherEvents() {
				a.DeliverWatcherEvent(ev)
			}
			for _, pc := range a.PayCalls {
				if pc.Kind == "claim" {
					classes = append(classes, "claim-paid")
					// outflow bound: never more than (amount + limit) * 1000 msat, for any premium incl. overflowing ones
					bound := new(big.Int).Add(bigU(amount), limit)
					bound.Mul(bound, big.NewInt(1000))
					if bigU(claimMsat).Cmp(bound) > 0 {
						t.Fatalf("VKEY[C12/claim-outflow-above-bound] %s: claim invoice of %d msat paid, bound (amount+limit)*1000 = %s", desc, claimMsat, bound)
					}
					// exact amount wherever amount+premium is representable (no wrap-around)
					sum := new(big.Int).Add(bigU(amount), big.NewInt(prem))
					if sum.Sign() >= 0 && sum.IsInt64() && bigU(claimMsat).Cmp(want) != 0 {
						t.Fatalf("VKEY[C12/claim-invoice-amount] %s: claim invoice of %d msat paid, agreed (amount+premium)*1000 = %s", desc, claimMsat, want)
					}
					if sum.Sign() < 0 || !sum.IsInt64() {
						classes = append(classes, "premium-overflows")
					}
					if big.NewInt(prem).Cmp(limit) > 0 {
						t.Fatalf("VKEY[C12/premium-above-limit] %s: claim paid with premium above limit", desc)
					}
				}
			}
		} else {
			req := lastSentOfType(a, mtSwapInRequest)
			var rq swap.SwapInRequestMessage
			_ = json.Unmarshal(req.Payload, &rq)
			if big.NewInt(rq.PremiumLimit).Cmp(limit) != 0 || rq.Amount != amount {
				t.Fatalf("VKEY[C12/request-limit] request carries limit %d amount %d, want %s / %d", rq.PremiumLimit, rq.Amount, limit, amount)
			}
			agr, _ := json.Marshal(&swap.SwapInAgreementMessage{ProtocolVersion: 7, SwapId: mustSwapId(id), Pubkey: makerPub, Premium: prem})
			a.Deliver(m.Id, mtSwapInAgreement, agr)
			if len(a.Openings) == 0 {
				classes = append(classes, "lock-refused")
			}
			for _, o := range a.Openings {
				classes = append(classes, "locked")
				want := new(big.Int).Add(bigU(amount), big.NewInt(prem))
				bound := new(big.Int).Add(bigU(amount), limit)
				if bigU(o.Params.Amount).Cmp(bound) > 0 {
					t.Fatalf("VKEY[C12/lock-above-bound] %s: locked %d sat on-chain, bound amount+limit = %s", desc, o.Params.Amount, bound)
				}
				if want.Sign() >= 0 && want.IsInt64() && bigU(o.Params.Amount).Cmp(want) != 0 {
					t.Fatalf("VKEY[C12/locked-amount] %s: locked %d sat on-chain, agreed amount+premium = %s", desc, o.Params.Amount, want)
				}
				if big.NewInt(prem).Cmp(limit) > 0 {
					t.Fatalf("VKEY[C12/premium-above-limit] %s: locked funds although premium %d > limit %s", desc, prem, limit)
				}
			}
			for _, pr := range a.InvoicesMade {
				inv, _ := sim.DecodeInvoice(pr)
				if bigU(inv.AmountMsat).Cmp(new(big.Int).Mul(bigU(amount), big.NewInt(1000))) != 0 {
					t.Fatalf("VKEY[C12/requested-invoice-amount] %s: swap-in initiator created an invoice over %d msat, amount*1000 = %d", desc, inv.AmountMsat, amount*1000)
				}
			}
		}
		nearBound := prem == limit.Int64() || prem == limit.Int64()+1 || prem == limit.Int64()-1 || prem == 1<<63-1 || prem == -1<<63
		col.Case(desc, len(classes) > 2 || nearBound, map[string]interface{}{"swap_out": out, "chain": chain, "amount": amount, "limit": limit.String(), "premium": prem, "classes": classes}, classes...)
	})
}

func mustHex(s string) []byte {
	b, err := hex.DecodeString(s)
	if err != nil {
		panic(err)
	}
	return b
}

// TestC12ResponderPremium: a responder charges exactly the premium of its configured rate.
func TestC12ResponderPremium(t *testing.T) {
	col := stats.Get("C12.responder")
	rapid.Check(t, func(t *rapid.T) {
		sim.CaseStart(t)
		w := sim.NewWorld()
		defer w.Close()
		a := w.AddNode("alice")
		m := w.AddNode("mallory")
		w.LN.AddChannel("300x3x0", a.Id, m.Id, 1<<62, 1<<62)
		a.Balance["btc"], a.Balance["lbtc"] = 1<<62, 1<<62
		if err := a.Boot(); err != nil {
			t.Fatal(err)
		}
		out := rapid.Bool().Draw(t, "swapOut")
		liquid := rapid.Bool().Draw(t, "liquid")
		amount := rapid.OneOf(rapid.Uint64Range(100_000, 10_000_000), rapid.SampledFrom([]uint64{100_000, 1_000_000, 21_000_000_0000_0000 / 1000, 9_223_372_036_854, 9_223_372_036_855, 1_000_000_000_000})).Draw(t, "amount")
		as, op := premium.BTC, premium.SwapIn
		if liquid {
			as = premium.LBTC
		}
		if out {
			op = premium.SwapOut
		}
		keyHex := hex.EncodeToString(sim.KeyFromName("req-swapkey").PubKey().SerializeCompressed())
		asset, network := "", "regtest"
		if liquid {
			asset, network = sim.LbtcAsset, ""
		}
		request := func(id string, amt uint64) []byte {
			if out {
				b, _ := json.Marshal(&swap.SwapOutRequestMessage{ProtocolVersion: 7, SwapId: mustSwapId(id), Asset: asset, Network: network, Scid: "300x3x0", Amount: amt, Pubkey: keyHex, PremiumLimit: 1<<63 - 1})
				return b
			}
			b, _ := json.Marshal(&swap.SwapInRequestMessage{ProtocolVersion: 7, SwapId: mustSwapId(id), Asset: asset, Network: network, Scid: "300x3x0", Amount: amt, Pubkey: keyHex, PremiumLimit: 1<<63 - 1})
			return b
		}
		typ := mtSwapInRequest
		if out {
			typ = mtSwapOutRequest
		}
		// the rate configuration is a history: rates are set, changed and deleted at run time, and the
		// peer may have been quoted before under an earlier configuration
		var peerRate, defRate *int64
		var cfgOps []string
		configure := func(label string) {
			for i, n := 0, rapid.IntRange(0, 2).Draw(t, label+"Ops"); i < n; i++ {
				r := rapid.OneOf(rapid.Int64Range(-1_000_000, 1_000_000), rapid.SampledFrom([]int64{0, 1, -1, 1_000_000, -1_000_000, 2000})).Draw(t, label+"Rate")
				switch rapid.SampledFrom([]string{"peer", "default", "default", "delete-peer"}).Draw(t, label+"Op") {
				case "peer":
					pr, _ := premium.NewPremiumRate(as, op, premium.NewPPM(r))
					_ = a.Premium.SetRate(nil, m.Id, pr)
					peerRate = &r
					cfgOps = append(cfgOps, fmt.Sprintf("peer=%d", r))
				case "default":
					pr, _ := premium.NewPremiumRate(as, op, premium.NewPPM(r))
					_ = a.Premium.SetDefaultRate(nil, pr)
					defRate = &r
					cfgOps = append(cfgOps, fmt.Sprintf("default=%d", r))
				case "delete-peer":
					_ = a.Premium.DeleteRate(nil, m.Id, as, op)
					peerRate = nil
					cfgOps = append(cfgOps, "delete-peer")
				}
			}
		}
		configure("cfg1")
		if rapid.Bool().Draw(t, "quotedBefore") {
			id0 := freshId(t)
			a.Deliver(m.Id, typ, request(id0, 150_000))
			a.Deliver(m.Id, mtCancel, buildMessage(t, mtCancel, id0, "", "btc", ""))
			cfgOps = append(cfgOps, "earlier-request")
			configure("cfg2")
		}
		rate, src := builtinRate(liquid, out), "builtin"
		if defRate != nil {
			rate, src = *defRate, "default"
		}
		if peerRate != nil {
			rate, src = *peerRate, "peer"
		}
		src += fmt.Sprintf("%v", cfgOps)
		wantPrem := new(big.Int).Mul(bigU(amount), big.NewInt(rate))
		wantPrem.Quo(wantPrem, big.NewInt(1_000_000))
		id := freshId(t)
		a.Deliver(m.Id, typ, request(id, amount))
		desc := fmt.Sprintf("out=%v liquid=%v amount=%d rate=%d(%s)", out, liquid, amount, rate, src)
		var got *int64
		if out {
			if sm := lastSentOfType(a, mtSwapOutAgreement); sm != nil {
				var ag swap.SwapOutAgreementMessage
				_ = json.Unmarshal(sm.Payload, &ag)
				got = &ag.Premium
			}
		} else if sm := lastSentOfType(a, mtSwapInAgreement); sm != nil {
			var ag swap.SwapInAgreementMessage
			_ = json.Unmarshal(sm.Payload, &ag)
			got = &ag.Premium
		}
		if got == nil {
			t.Fatalf("harness: request not admitted: %s\n%s", desc, tail(sim.LogDump(), 10))
		}
		if big.NewInt(*got).Cmp(wantPrem) != 0 {
			t.Fatalf("VKEY[C12/responder-premium] %s: agreement charges %d, configured rate gives %s", desc, *got, wantPrem)
		}
		if out {
			// the maker pays the fee invoice notification path: let the requester pay the fee, then check the lock and the claim invoice
			for _, pr := range a.InvoicesMade {
				if inv := w.LN.Invoices[pr]; inv != nil && inv.Type == int(swap.INVOICE_FEE) {
					inv.Paid = true
					a.DeliverPayment(sim.Notif{Node: a.Name, SwapId: id, Type: swap.INVOICE_FEE, Payreq: pr})
				}
			}
			for _, o := range a.Openings {
				if o.Params.Amount != amount {
					t.Fatalf("VKEY[C12/locked-amount] %s: swap-out responder locked %d, agreed amount %d", desc, o.Params.Amount, amount)
				}
			}
			wantClaim := new(big.Int).Add(bigU(amount), wantPrem)
			wantClaim.Mul(wantClaim, big.NewInt(1000))
			for _, pr := range a.InvoicesMade {
				if inv := w.LN.Invoices[pr]; inv != nil && inv.Type == int(swap.INVOICE_CLAIM) {
					if wantClaim.IsUint64() && bigU(inv.AmountMsat).Cmp(wantClaim) != 0 {
						t.Fatalf("VKEY[C12/claim-invoice-amount] %s: responder's claim invoice is %d msat, (amount+premium)*1000 = %s", desc, inv.AmountMsat, wantClaim)
					}
				}
			}
		}
		col.Case(desc, src != "peer" || rate < 0 || amount > 1_000_000_000, map[string]interface{}{"swap_out": out, "liquid": liquid, "amount": amount, "rate": rate, "source": src, "premium": *got}, "source:"+src)
	})
}

func builtinRate(liquid, out bool) int64 {
	if !out {
		return 0
	}
	if liquid {
		return 1000
	}
	return 2000
}
