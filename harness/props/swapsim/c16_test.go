package swapsim

import (
	"fmt"
	"sort"
	"strings"
	"testing"

	"github.com/elementsproject/peerswap/swap"
	"pgregory.net/rapid"

	"verifharness/sim"
	"verifharness/stats"
)

// closure grants exactly the premise of C16 to every node: the peer is silent
// (no message is delivered any more), the chain keeps advancing past every
// CSV, local services work again, pending HTLCs fail, every armed time-out
// fires, and the node is restarted from time to time.
func closureSilentPeer(h *Hist, rounds int) {
	h.W.CrashAt = -1
	for _, m := range h.W.PendingMsgs() {
		h.W.Drop(m)
	}
	for r := 0; r < rounds; r++ {
		for _, n := range h.nodes() {
			n.Faults = map[string][]sim.FaultKind{}
			n.PayPlan = map[string][]sim.PayOutcome{"claim": {sim.PayFailClean, sim.PayFailClean, sim.PayFailClean}, "fee": {sim.PayFailClean}}
			n.MineOnHeightCall = map[string][]uint32{}
		}
		var pend []string
		for hash, p := range h.W.LN.Payments {
			if p.State == sim.PayPending {
				pend = append(pend, hash)
			}
		}
		sort.Strings(pend)
		for _, hash := range pend {
			h.W.LN.ResolvePending(hash, false)
		}
		for _, n := range h.nodes() {
			if !h.alive(n) {
				n.Boot()
				n.Recover()
			}
			for i := range n.Timeouts.Snapshot() {
				n.FireTimeout(i)
			}
		}
		// the chain advances; local watchers and payment notifications keep working
		for _, step := range []uint32{1, 2, 60, 504, 504, 10080} {
			for _, c := range h.Cfg.Chains {
				if step > 1100 && c == "btc" {
					continue
				}
				h.W.Mine(c, step)
			}
			for k := 0; k < 4; k++ {
				for _, n := range h.nodes() {
					for _, nt := range n.TakePaymentNotifs() {
						n.DeliverPayment(nt)
					}
					for _, ev := range n.DueWatcherEvents() {
						n.DeliverWatcherEvent(ev)
					}
				}
			}
			for _, m := range h.W.PendingMsgs() {
				h.W.Drop(m)
			}
		}
		if r%2 == 1 || r == 0 {
			for _, n := range h.nodes() {
				n.Kill()
				if err := n.Boot(); err != nil {
					h.T.Fatalf("boot: %v", err)
				}
				n.Recover()
			}
		}
		if allTerminal(h) {
			return
		}
	}
}

func allTerminal(h *Hist) bool {
	for _, n := range h.nodes() {
		for _, s := range n.Swaps() {
			if !isTerminal(s.Current) {
				return false
			}
		}
		if len(n.Svc.VerifActiveSwapIds()) != 0 {
			return false
		}
	}
	return true
}

// howEntered describes how the swap got into its final persisted state.
func howEntered(n *sim.Node, id string) string {
	var seq []string
	for _, w := range n.Writes {
		if w.SwapId == id && (len(seq) == 0 || seq[len(seq)-1] != w.State) {
			seq = append(seq, w.State)
		}
	}
	if len(seq) > 3 {
		seq = seq[len(seq)-3:]
	}
	return strings.Join(seq, ">")
}

func checkC16(h *Hist, col *stats.Collector) {
	for _, n := range h.nodes() {
		for _, s := range n.Swaps() {
			col.Class("final:" + string(s.Current))
			if isTerminal(s.Current) {
				continue
			}
			role := fmt.Sprintf("%s-%s", s.Type, s.Role)
			key := fmt.Sprintf("C16/stuck:%s:%s", role, strings.TrimPrefix(string(s.Current), "State_"))
			if s.Current == "" {
				key = fmt.Sprintf("C16/stuck:%s:default-state", role)
			}
			// root cause marker: the node's own spend of the opening output is already on
			// chain (broadcast happened, the process died before the tx id was persisted)
			if s.Data != nil && s.Data.OpeningTxBroadcasted != nil {
				for _, sp := range n.Spends {
					if sp.TxID != "" && sp.PrevTx == s.Data.OpeningTxBroadcasted.TxId {
						key = fmt.Sprintf("C16/claim-broadcast-not-persisted:%s:%s", role, strings.TrimPrefix(string(s.Current), "State_"))
					}
				}
			}
			h.stop = col.Violation(h.T, key, "after closure (silent peer, chain advanced, services healthy, restarts) swap %s on %s is still in %q (path %s)\n%s\n-- log --\n%s",
				s.SwapId.String()[:6], n.Name, s.Current, howEntered(n, s.SwapId.String()), h.dump(), tail(sim.LogDump(), 25))
			if h.stop {
				return
			}
		}
		if ids := n.Svc.VerifActiveSwapIds(); len(ids) != 0 {
			rec := recOf(n, ids[0])
			st := "?"
			if rec != nil {
				st = string(rec.Current)
			}
			h.stop = col.Violation(h.T, "C16/channel-not-released:"+strings.TrimPrefix(st, "State_"), "after closure node %s still holds active swaps %v (state %s)\n%s", n.Name, ids, st, h.dump())
			if h.stop {
				return
			}
		}
	}
}

func TestC16EventualTermination(t *testing.T) {
	col := stats.Get("C16.hist")
	rapid.Check(t, func(t *rapid.T) {
		h := newHist(t, HistCfg{MaxSteps: 26, Chains: []string{"btc", "lbtc"}, Restarts: true, Crashes: true, Faults: true, PayOutcomes: true, Timeouts: true, Eager: true,
			LNDStyle: rapid.Bool().Draw(t, "lnd"),
			Weights:  map[string]int{"start": 0, "progress": 14, "deliver": 1, "settle": 1, "restart": 2, "mine": 2, "watcher": 1, "paid": 1, "timeout": 1, "payplan": 2, "resolve": 1, "fault": 3, "armcrash": 2, "makerdown": 2}})
		defer h.Close()
		h.run(h.stdActions())
		cut := len(h.Ops)
		closureSilentPeer(h, 4)
		checkC16(h, col)
		var states []string
		for _, n := range h.nodes() {
			for _, w := range n.Writes {
				states = append(states, w.State)
			}
		}
		for _, s := range states {
			col.Class("reached:" + s)
		}
		col.Case(h.Key(), cut > 2, h.Ops, h.classList()...)
	})
}

var _ = swap.State_SwapCanceled
