package swapsim

import (
	"fmt"
	"testing"

	"verifharness/sim"
)

// Probes replay the saved input of each listed known finding deterministically
// and print whether it still reproduces. They never fail the run.

func probeReport(t *testing.T, id string, reproduces bool, detail string) {
	st := "gone"
	if reproduces {
		st = "reproduces"
	}
	fmt.Printf("PROBE[%s] %s %s\n", id, st, detail)
}

// driveSwapOutToConfirmed: alice swaps out with bob until alice's watcher can report the confirmation.
func driveSwapOutToConfirmed(t *testing.T, chain string) (*sim.World, *sim.Node, *sim.Node, string) {
	w, a, b := twoNodes(t)
	var id string
	w.Step(a, func() {
		sm, err := a.Svc.SwapOut(b.Id, chain, "100x1x0", a.Id, 1_000_000, 10_000)
		if err == nil {
			id = sm.SwapId.String()
		}
	})
	// deliver everything except watcher callbacks
	for i := 0; i < 10; i++ {
		for _, m := range w.PendingMsgs() {
			w.DeliverMsg(m)
		}
		for _, n := range []*sim.Node{a, b} {
			for _, nt := range n.TakePaymentNotifs() {
				n.DeliverPayment(nt)
			}
		}
	}
	w.Mine(chain, 3)
	return w, a, b, id
}

func TestProbeC06FailurePath(t *testing.T) {
	w, a, b, id := driveSwapOutToConfirmed(t, "btc")
	defer w.Close()
	a.LNDStyle = true
	evs := a.DueWatcherEvents()
	if len(evs) == 0 || id == "" {
		probeReport(t, "C06-failure-path-ignores-payment", false, "(scenario not reachable)")
		return
	}
	// crash right after the claim payment succeeded, before the result is persisted
	tr := w.TraceLen()
	a.DeliverWatcherEvent(evs[0])
	crashIdx := -1
	for _, e := range w.TraceCopy()[tr:] {
		if e.Call == "ln.Pay.claim" && e.Phase == "exit" {
			crashIdx = e.Idx
		}
	}
	// replay the same scenario with the crash armed (fresh world for determinism)
	w2, a2, b2, id2 := driveSwapOutToConfirmed(t, "btc")
	defer w2.Close()
	_ = b
	_ = b2
	a2.LNDStyle = true
	evs2 := a2.DueWatcherEvents()
	if crashIdx < 0 || len(evs2) == 0 {
		probeReport(t, "C06-failure-path-ignores-payment", false, "(no payment attempt seen)")
		return
	}
	w2.CrashAt = crashIdx
	crashed, _ := a2.DeliverWatcherEvent(evs2[0])
	if !crashed {
		probeReport(t, "C06-failure-path-ignores-payment", false, "(crash point not hit)")
		return
	}
	a2.Boot()
	a2.Recover()
	for i := 0; i < 4; i++ {
		for _, ev := range a2.DueWatcherEvents() {
			a2.DeliverWatcherEvent(ev)
		}
	}
	disclosed := false
	for _, m := range a2.SentBy() {
		if m.Type == mtCoopClose && !m.Failed && swapIdOfPayload(m.Payload) == id2 {
			rec := recOf(a2, id2)
			if st := m.PayStates[claimHashOf(rec)]; st == sim.PaySucceeded || st == sim.PayPending {
				disclosed = true
			}
		}
	}
	probeReport(t, "C06-failure-path-ignores-payment", disclosed, "(LND-style back-end, crash after settled payment, restart)")
}

func TestProbeC10RequestBeforeRecovery(t *testing.T) {
	w, a, b := twoNodes(t)
	defer w.Close()
	// alice has a live swap-out on 100x1x0; bob asks for a swap on the same channel
	w.Step(a, func() { a.Svc.SwapOut(b.Id, "btc", "100x1x0", a.Id, 1_000_000, 10_000) })
	for _, m := range w.PendingMsgs() {
		w.Drop(m)
	}
	w.Step(b, func() { b.Svc.SwapOut(a.Id, "btc", "100x1x0", b.Id, 1_000_000, 10_000) })
	// restart alice; the request arrives after Start() but before RecoverSwaps()
	a.Kill()
	a.Boot()
	for _, m := range w.PendingMsgs() {
		w.DeliverMsg(m)
	}
	a.Recover()
	live := 0
	for _, s := range a.Swaps() {
		if !isTerminal(s.Current) {
			live++
		}
	}
	probeReport(t, "C10-request-before-recovery", live > 1, fmt.Sprintf("(%d non-terminal swaps on one channel)", live))
}

func TestProbeC16ClaimBroadcastNotPersisted(t *testing.T) {
	const id = "C16-claim-broadcast-not-persisted"
	run := func(crashAt int) (*sim.World, *sim.Node, string, bool) {
		w, a, _, sid := driveSwapOutToConfirmed(t, "btc")
		evs := a.DueWatcherEvents()
		if len(evs) == 0 || sid == "" {
			return w, a, sid, false
		}
		w.CrashAt = crashAt
		crashed, _ := a.DeliverWatcherEvent(evs[0])
		return w, a, sid, crashed
	}
	w, _, _, _ := run(-1)
	crashIdx := -1
	for _, e := range w.TraceCopy() {
		if e.Call == "wallet.CreatePreimageSpendingTransaction" && e.Phase == "exit" {
			crashIdx = e.Idx
		}
	}
	w.Close()
	if crashIdx < 0 {
		probeReport(t, id, false, "(no claim broadcast seen)")
		return
	}
	w2, a2, sid, crashed := run(crashIdx)
	defer w2.Close()
	if !crashed {
		probeReport(t, id, false, "(crash point not hit)")
		return
	}
	for i := 0; i < 3; i++ {
		a2.Kill()
		a2.Boot()
		a2.Recover()
		w2.Mine("btc", 10)
		for _, ev := range a2.DueWatcherEvents() {
			a2.DeliverWatcherEvent(ev)
		}
	}
	rec := recOf(a2, sid)
	probeReport(t, id, rec != nil && !isTerminal(rec.Current), fmt.Sprintf("(claim tx accepted by the chain, swap still in %s after three restarts)", rec.Current))
}

// swap-in from alice to bob up to the point where alice handles the agreement (and broadcasts).
func probeSwapInOpening(t *testing.T, arrange func(w *sim.World, a *sim.Node)) (*sim.World, *sim.Node, bool) {
	w, a, b := twoNodes(t)
	a.ChangeBefore = 1
	w.Step(a, func() { a.Svc.SwapIn(b.Id, "btc", "100x1x0", a.Id, 1_000_000, 10_000) })
	for _, m := range w.PendingMsgs() { // request -> bob
		w.DeliverMsg(m)
	}
	arrange(w, a)
	crashed := false
	for _, m := range w.PendingMsgs() { // agreement -> alice: broadcasts the opening tx
		c, _ := w.DeliverMsg(m)
		crashed = crashed || c
	}
	return w, a, crashed
}

func openingRecorded(a *sim.Node) (have bool, recorded bool) {
	if len(a.Openings) == 0 {
		return false, false
	}
	o := a.Openings[0]
	rec := recForOpening(a, o)
	return true, rec != nil && rec.Data.OpeningTxBroadcasted != nil && rec.Data.OpeningTxBroadcasted.TxId == o.TxID
}

func TestProbeC07CrashAfterOpeningBroadcast(t *testing.T) {
	const id = "C07-crash-after-opening-broadcast"
	// find the trace index of the broadcast in a crash-free run
	w, _, _ := probeSwapInOpening(t, func(*sim.World, *sim.Node) {})
	idx := -1
	for _, e := range w.TraceCopy() {
		if e.Call == "wallet.CreateOpeningTransaction" && e.Phase == "exit" {
			idx = e.Idx
		}
	}
	w.Close()
	w2, a2, crashed := probeSwapInOpening(t, func(w *sim.World, a *sim.Node) { w.CrashAt = idx })
	defer w2.Close()
	if idx < 0 || !crashed {
		probeReport(t, id, false, "(crash point not reached)")
		return
	}
	a2.Boot()
	a2.Recover()
	have, recorded := openingRecorded(a2)
	probeReport(t, id, have && !recorded, "(opening tx on chain, record after restart does not name it)")
}

func TestProbeC07WalletErrorAfterBroadcast(t *testing.T) {
	const id = "C07-wallet-error-after-broadcast"
	w, a, _ := probeSwapInOpening(t, func(w *sim.World, a *sim.Node) {
		a.Faults["wallet.CreateOpeningTransaction"] = []sim.FaultKind{sim.FaultAfter}
	})
	defer w.Close()
	have, recorded := openingRecorded(a)
	probeReport(t, id, have && !recorded, "(wallet back-end failed after broadcasting, swap has no record of the tx)")
}
