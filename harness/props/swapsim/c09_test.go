package swapsim

import (
	"encoding/hex"
	"encoding/json"
	"fmt"
	"sort"
	"strings"
	"testing"
	"time"

	"github.com/elementsproject/peerswap/swap"
	"pgregory.net/rapid"

	"verifharness/sim"
	"verifharness/stats"
)

// acceptable is the protocol's table of which message a role accepts in which
// waiting state (written from the protocol description: a message is only
// meaningful while the swap waits for it).
func acceptable(rec *swap.SwapStateMachine, typ int) bool {
	st := string(rec.Current)
	switch typ {
	case mtSwapInAgreement:
		return st == "State_SwapInSender_AwaitAgreement"
	case mtSwapOutAgreement:
		return st == "State_SwapOutSender_AwaitAgreement"
	case mtOpeningTx:
		return st == "State_SwapOutSender_AwaitTxBroadcastedMessage" || st == "State_SwapInReceiver_AwaitTxBroadcastedMessage"
	case mtCancel:
		return !isTerminal(rec.Current)
	case mtCoopClose:
		return st == "State_SwapInSender_AwaitClaimPayment" || st == "State_SwapOutReceiver_AwaitClaimInvoicePayment" || st == "State_WaitCsv"
	}
	return false // requests never apply to an existing swap
}

func checkC09(col *stats.Collector) func(h *Hist, inj *injected) {
	return func(h *Hist, inj *injected) {
		after := snapshotRecords(inj.Target)
		activeAfter := inj.Target.Svc.VerifActiveSwapIds()
		sort.Strings(activeAfter)
		isReq := inj.Type == mtSwapInRequest || inj.Type == mtSwapOutRequest
		for id, before := range inj.Before {
			var rec swap.SwapStateMachine
			_ = json.Unmarshal([]byte(before), &rec)
			allowed := id == inj.SwapId && rec.Data != nil && rec.Data.PeerNodeId == inj.FromId && acceptable(&rec, inj.Type)
			if allowed {
				continue
			}
			if after[id] != before {
				key := "C09/foreign-message-changed-swap"
				switch {
				case isReq && id == inj.SwapId:
					key = "C09/id-reuse-overwrites-swap"
				case id == inj.SwapId && rec.Data != nil && rec.Data.PeerNodeId == inj.FromId:
					key = "C09/unacceptable-message-changed-record"
				}
				h.stop = col.Violation(h.T, key, "delivery of type %d id %s (%s) from %s changed record of swap %s in state %s\nbefore: %s\nafter:  %s\n%s",
					inj.Type, inj.SwapId[:6], inj.IdClass, inj.FromName, id[:6], rec.Current, before, after[id], h.dump())
				return
			}
		}
		if strings.Join(activeAfter, ",") != strings.Join(inj.ActiveBefore, ",") {
			// the active set may only change for the addressed swap when the message was allowed, or by a new fresh-id request
			if !(isReq && inj.IdClass == "fresh") {
				if b, ok := inj.Before[inj.SwapId]; ok {
					var rec swap.SwapStateMachine
					_ = json.Unmarshal([]byte(b), &rec)
					if rec.Data != nil && rec.Data.PeerNodeId == inj.FromId && acceptable(&rec, inj.Type) {
						return
					}
				}
				h.stop = col.Violation(h.T, "C09/active-set-changed", "delivery of type %d id %s (%s) from %s changed the active set %v -> %v\n%s",
					inj.Type, inj.SwapId[:6], inj.IdClass, inj.FromName, inj.ActiveBefore, activeAfter, h.dump())
				return
			}
		}
		if isReq && inj.IdClass != "fresh" {
			// refused: no agreement for that id may go to the requester
			for _, m := range h.W.Sent[inj.SentBefore:] {
				if m.From == inj.Target.Name && (m.Type == mtSwapInAgreement || m.Type == mtSwapOutAgreement) && swapIdOfPayload(m.Payload) == inj.SwapId {
					h.stop = col.Violation(h.T, "C09/id-reuse-agreement-sent", "request reusing id %s (%s) from %s was answered with an agreement\n%s", inj.SwapId[:6], inj.IdClass, inj.FromName, h.dump())
					return
				}
			}
		}
	}
}

func TestC09OnlyCounterparty(t *testing.T) {
	col := stats.Get("C09.hist")
	rapid.Check(t, func(t *rapid.T) {
		h := newHist(t, HistCfg{MaxSteps: 24, Chains: []string{"btc", "lbtc"}, Restarts: true, MultiSwap: true, Timeouts: true,
			Weights: map[string]int{"start": 3, "deliver": 5, "settle": 1, "restart": 1, "mine": 2, "inject": 6, "watcher": 2, "paid": 2, "timeout": 1}})
		defer h.Close()
		acts := h.stdActions()
		acts["inject"] = h.actInject(checkC09(col))
		h.run(acts)
		nt := false
		for c := range h.Classes {
			if strings.HasPrefix(c, "inject:") && !strings.HasSuffix(c, ":fresh") {
				nt = true
			}
		}
		col.Case(h.Key(), nt, h.Ops, h.classList()...)
	})
}

// TestC09ThirdPartyNoise: a third party must not be able to influence a swap at all - not its record, and
// not what happens to it next. One scripted honest swap (initiator, chain) is run to quiescence twice:
// once undisturbed, once with well-formed (or content-invalid) messages of every type carrying the swap's
// id injected by a third party at generated points, towards either node. Both runs must end in the same
// states and the two nodes must have exchanged the same sequence of message types.
func TestC09ThirdPartyNoise(t *testing.T) {
	col := stats.Get("C09.noise")
	rapid.Check(t, func(t *rapid.T) {
		typ := rapid.SampledFrom([]string{"out", "in"}).Draw(t, "type")
		chain := rapid.SampledFrom([]string{"btc", "lbtc"}).Draw(t, "chain")
		type noise struct {
			step   int
			target string
			mtype  int
			bad    bool
		}
		var plan []noise
		for i, n := 0, rapid.IntRange(1, 6).Draw(t, "noiseCount"); i < n; i++ {
			plan = append(plan, noise{step: rapid.IntRange(0, 14).Draw(t, "noiseStep"), target: rapid.SampledFrom([]string{"alice", "bob"}).Draw(t, "noiseTarget"),
				mtype: rapid.SampledFrom(allTypes).Draw(t, "noiseType"), bad: rapid.IntRange(0, 3).Draw(t, "noiseBad") == 0})
		}
		run := func(withNoise bool) (states string, traffic string, ops []string) {
			h := newHist(t, HistCfg{Chains: []string{chain}, NoInitialSwap: true})
			defer h.Close()
			var sm *swap.SwapStateMachine
			var err error
			h.W.Step(h.A, func() {
				if typ == "out" {
					sm, err = h.A.Svc.SwapOut(h.B.Id, chain, "100x1x0", h.A.Id, 1_000_000, 20_000)
				} else {
					sm, err = h.A.Svc.SwapIn(h.B.Id, chain, "100x1x0", h.A.Id, 1_000_000, 20_000)
				}
			})
			if err != nil || sm == nil {
				t.Fatalf("harness: start: %v", err)
			}
			id := sm.SwapId.String()
			key := hex.EncodeToString(sim.KeyFromName("noise").PubKey().SerializeCompressed())
			idle := 0
			for i := 0; i < 60 && idle < 2; i++ {
				if withNoise {
					for _, nz := range plan {
						if nz.step != i {
							continue
						}
						target := h.A
						if nz.target == "bob" {
							target = h.B
						}
						// a node that does not know the swap yet is outside this check: a request that squats
						// an id is simply a new swap there, and a later request with that id is refused as the
						// property demands (id reuse)
						if recOf(target, id) == nil {
							h.opf("noise-skipped(%s does not know the swap yet)", nz.target)
							continue
						}
						payload := buildMessage(t, nz.mtype, id, "100x1x0", chain, key)
						if nz.bad {
							var x map[string]interface{}
							if json.Unmarshal(payload, &x) == nil {
								for _, f := range []string{"pubkey", "privkey", "tx_id"} {
									if _, ok := x[f]; ok {
										x[f] = "abcd"
									}
								}
								payload, _ = json.Marshal(x)
							}
						}
						target.Deliver(h.Mallory.Id, nz.mtype, payload)
						h.opf("noise(%s,%d,bad=%v)", nz.target, nz.mtype, nz.bad)
					}
				}
				// answers addressed to the third party are not part of the two-party run (and must not block
				// the honest environment's in-order delivery)
				for _, m := range h.W.PendingMsgs() {
					if m.To == h.Mallory.Id {
						h.W.Drop(m)
					}
				}
				before, tl := len(h.Ops), h.W.TraceLen()
				h.actProgress()
				if len(h.Ops) == before && h.W.TraceLen() == tl {
					idle++
				} else {
					idle = 0
				}
			}
			var st []string
			for _, n := range h.nodes() {
				cur := "none"
				if rec := recOf(n, id); rec != nil {
					cur = string(rec.Current)
				}
				st = append(st, n.Name+"="+cur)
			}
			var tr []string
			for _, m := range h.W.Sent {
				if m.To == h.Mallory.Id {
					continue // answers to the third party itself (cancel for an unknown / foreign swap)
				}
				tr = append(tr, fmt.Sprintf("%s:%d", m.From, m.Type))
			}
			return strings.Join(st, ","), strings.Join(tr, " "), h.Ops
		}
		refStates, refTraffic, _ := run(false)
		gotStates, gotTraffic, ops := run(true)
		desc := fmt.Sprintf("type=%s chain=%s noise=%v", typ, chain, plan)
		if gotStates != refStates {
			col.Violation(t, "C09/third-party-changed-outcome", "%s: undisturbed run ends in [%s], with third-party messages it ends in [%s]\nops: %v", desc, refStates, gotStates, ops)
			return
		}
		if gotTraffic != refTraffic {
			col.Violation(t, "C09/third-party-changed-traffic", "%s: messages between the two nodes differ\n undisturbed: %s\n with noise:  %s\nops: %v", desc, refTraffic, gotTraffic, ops)
			return
		}
		col.Case(desc, true, map[string]interface{}{"type": typ, "chain": chain, "noise": len(plan), "end": refStates}, "end:"+refStates)
	})
}

// TestC09ConcurrentSameId: two requests carrying the same swap id reach the node on two channels at the
// same time (CLN hands every custom message to its own goroutine). The first one is parked at a generated
// boundary call after the id check, the second one runs, then the first continues. Whatever the order, the
// id belongs to at most one swap: at most one requester gets an agreement, the other one a cancel, and the
// record, the active swap and the agreement that went out all name the same peer and the same key.
func TestC09ConcurrentSameId(t *testing.T) {
	col := stats.Get("C09.concurrent")
	rapid.Check(t, func(t *rapid.T) {
		sim.LogReset()
		sim.CaseStart(t)
		w := sim.NewWorld()
		defer w.Close()
		a := w.AddNode("alice")
		m1 := w.AddNode("mallory")
		m2 := w.AddNode("trudy")
		samePeer := rapid.IntRange(0, 3).Draw(t, "samePeer") == 0 // the same peer on two of its channels
		w.LN.AddChannel("300x3x0", a.Id, m1.Id, 5_000_000_000, 5_000_000_000)
		second := m2
		if samePeer {
			second = m1
		}
		w.LN.AddChannel("400x4x0", a.Id, second.Id, 5_000_000_000, 5_000_000_000)
		if err := a.Boot(); err != nil {
			t.Fatal(err)
		}
		chain := rapid.SampledFrom([]string{"btc", "lbtc"}).Draw(t, "chain")
		key1 := hex.EncodeToString(sim.KeyFromName("c09-req-1").PubKey().SerializeCompressed())
		key2 := hex.EncodeToString(sim.KeyFromName("c09-req-2").PubKey().SerializeCompressed())
		t1 := rapid.SampledFrom([]int{mtSwapInRequest, mtSwapOutRequest}).Draw(t, "type1")
		t2 := rapid.SampledFrom([]int{mtSwapInRequest, mtSwapOutRequest}).Draw(t, "type2")
		id := freshId(t)
		parkAt := rapid.SampledFrom([]string{"ln.CanSpend:enter", "ln.ProbePayment:enter", "ln.ReceivableMsat:enter", "ln.SpendableMsat:enter", "store.UpdateData:enter", "store.UpdateData:exit",
			"wallet.GetOnchainBalance:enter", "ln.GetPayreq:enter", "msg.Send:enter", "watcher.GetBlockHeight:enter"}).Draw(t, "parkAt")
		parked := make(chan struct{})
		w.Locked(func() { w.ParkOn, w.ParkOnNode, w.Parked = parkAt, "alice", parked })
		p1 := buildMessage(t, t1, id, "300x3x0", chain, key1)
		p2 := buildMessage(t, t2, id, "400x4x0", chain, key2)
		r1 := goRun(func() { a.Deliver(m1.Id, t1, p1) })
		reached := false
		select {
		case <-parked:
			reached = true
		case <-r1.done:
		case <-time.After(2 * time.Second):
		}
		r2 := goRun(func() { a.Deliver(second.Id, t2, p2) })
		r2done := r2.wait(300 * time.Millisecond)
		w.Locked(func() { w.ParkOn = "" })
		// the second requester may give up at once: its swap is then finished (persisted, no longer active)
		// when the first handler goes on
		cancelSecond := rapid.Bool().Draw(t, "cancelSecond")
		if cancelSecond && r2done && reached && !samePeer && (sentTypeFor(a, id, mtSwapInAgreement) || sentTypeFor(a, id, mtSwapOutAgreement)) {
			a.Deliver(second.Id, mtCancel, buildMessage(t, mtCancel, id, "", chain, ""))
		} else {
			cancelSecond = false
		}
		w.Release()
		if !r1.wait(5*time.Second) || !r2.wait(5*time.Second) {
			t.Fatalf("VKEY[C18/entry-point-never-returned] same-id requests (parked at %s) never returned", parkAt)
		}
		desc := fmt.Sprintf("types=%d,%d park=%s(reached=%v) chain=%s samePeer=%v secondGaveUp=%v", t1, t2, parkAt, reached, chain, samePeer, cancelSecond)
		// who was admitted: an agreement (swap-in) or a fee-invoice message (swap-out) went out under that id
		type adm struct {
			to, key string
		}
		var admitted []adm
		for _, sm := range a.SentBy() {
			if swapIdOfPayload(sm.Payload) != id || sm.Failed {
				continue
			}
			if sm.Type == mtSwapInAgreement || sm.Type == mtSwapOutAgreement {
				var x struct {
					Pubkey string `json:"pubkey"`
				}
				_ = json.Unmarshal(sm.Payload, &x)
				admitted = append(admitted, adm{sm.To, x.Pubkey})
			}
		}
		if len(admitted) > 1 {
			col.Violation(t, "C09/same-id-admitted-twice", "%s: %d agreements went out under swap id %s: %v\n%s", desc, len(admitted), id[:6], admitted, tail(sim.LogDump(), 25))
			return
		}
		rec := recOf(a, id)
		if len(admitted) == 1 {
			if rec == nil || rec.Data == nil {
				col.Violation(t, "C09/admitted-swap-has-no-record", "%s: an agreement went to %s but the node holds no record of swap %s", desc, admitted[0].to[:8], id[:6])
				return
			}
			if rec.Data.PeerNodeId != admitted[0].to {
				col.Violation(t, "C09/record-names-other-peer", "%s: the agreement went to %s, the record names %s\n%s", desc, admitted[0].to[:8], rec.Data.PeerNodeId[:8], tail(sim.LogDump(), 25))
				return
			}
			if k := hex.EncodeToString(rec.Data.GetPrivkey().PubKey().SerializeCompressed()); k != admitted[0].key {
				col.Violation(t, "C09/record-holds-other-key", "%s: the agreement carried key %s, the record holds the key of %s", desc, admitted[0].key[:10], k[:10])
				return
			}
			var live *swap.SwapStateMachine
			w.Step(a, func() { live, _ = a.Svc.GetActiveSwap(id) })
			if live != nil && live.Data != nil && live.Data.PeerNodeId != admitted[0].to {
				col.Violation(t, "C09/active-swap-names-other-peer", "%s: the agreement went to %s, the active swap names %s", desc, admitted[0].to[:8], live.Data.PeerNodeId[:8])
				return
			}
		}
		// the refused requester hears a cancel under that id (when the two requesters differ)
		cancels := 0
		for _, sm := range a.SentBy() {
			if sm.Type == mtCancel && swapIdOfPayload(sm.Payload) == id {
				cancels++
			}
		}
		if len(admitted)+cancels < 2 {
			col.Violation(t, "C09/same-id-request-unanswered", "%s: %d agreement(s) and %d cancel(s) for two requests under id %s\n%s", desc, len(admitted), cancels, id[:6], tail(sim.LogDump(), 25))
			return
		}
		col.Case(desc, reached, map[string]interface{}{"park": parkAt, "reached": reached, "admitted": len(admitted), "cancels": cancels},
			"park:"+parkAt, fmt.Sprintf("reached:%v", reached), fmt.Sprintf("admitted:%d", len(admitted)), fmt.Sprintf("same-peer:%v", samePeer), fmt.Sprintf("second-gave-up:%v", cancelSecond))
	})
}
