package swapsim

import (
	"encoding/json"
	"sort"
	"strings"
	"testing"

	"github.com/elementsproject/peerswap/swap"
	"pgregory.net/rapid"

	"verifharness/stats"
)

// acceptable is the protocol's table of which message a role accepts in which
// waiting state (written from the protocol description: a message is only
// meaningful while the swap waits for it).
func acceptable(rec *swap.SwapStateMachine, typ int) bool {
	st := string(rec.Current)
	switch typ {
	case mtSwapInAgreement:
		return st == "State_SwapInSender_AwaitAgreement"
	case mtSwapOutAgreement:
		return st == "State_SwapOutSender_AwaitAgreement"
	case mtOpeningTx:
		return st == "State_SwapOutSender_AwaitTxBroadcastedMessage" || st == "State_SwapInReceiver_AwaitTxBroadcastedMessage"
	case mtCancel:
		return !isTerminal(rec.Current)
	case mtCoopClose:
		return st == "State_SwapInSender_AwaitClaimPayment" || st == "State_SwapOutReceiver_AwaitClaimInvoicePayment" || st == "State_WaitCsv"
	}
	return false // requests never apply to an existing swap
}

func checkC09(col *stats.Collector) func(h *Hist, inj *injected) {
	return func(h *Hist, inj *injected) {
		after := snapshotRecords(inj.Target)
		activeAfter := inj.Target.Svc.VerifActiveSwapIds()
		sort.Strings(activeAfter)
		isReq := inj.Type == mtSwapInRequest || inj.Type == mtSwapOutRequest
		for id, before := range inj.Before {
			var rec swap.SwapStateMachine
			_ = json.Unmarshal([]byte(before), &rec)
			allowed := id == inj.SwapId && rec.Data != nil && rec.Data.PeerNodeId == inj.FromId && acceptable(&rec, inj.Type)
			if allowed {
				continue
			}
			if after[id] != before {
				key := "C09/foreign-message-changed-swap"
				switch {
				case isReq && id == inj.SwapId:
					key = "C09/id-reuse-overwrites-swap"
				case id == inj.SwapId && rec.Data != nil && rec.Data.PeerNodeId == inj.FromId:
					key = "C09/unacceptable-message-changed-record"
				}
				h.stop = col.Violation(h.T, key, "delivery of type %d id %s (%s) from %s changed record of swap %s in state %s\nbefore: %s\nafter:  %s\n%s",
					inj.Type, inj.SwapId[:6], inj.IdClass, inj.FromName, id[:6], rec.Current, before, after[id], h.dump())
				return
			}
		}
		if strings.Join(activeAfter, ",") != strings.Join(inj.ActiveBefore, ",") {
			// the active set may only change for the addressed swap when the message was allowed, or by a new fresh-id request
			if !(isReq && inj.IdClass == "fresh") {
				if b, ok := inj.Before[inj.SwapId]; ok {
					var rec swap.SwapStateMachine
					_ = json.Unmarshal([]byte(b), &rec)
					if rec.Data != nil && rec.Data.PeerNodeId == inj.FromId && acceptable(&rec, inj.Type) {
						return
					}
				}
				h.stop = col.Violation(h.T, "C09/active-set-changed", "delivery of type %d id %s (%s) from %s changed the active set %v -> %v\n%s",
					inj.Type, inj.SwapId[:6], inj.IdClass, inj.FromName, inj.ActiveBefore, activeAfter, h.dump())
				return
			}
		}
		if isReq && inj.IdClass != "fresh" {
			// refused: no agreement for that id may go to the requester
			for _, m := range h.W.Sent[inj.SentBefore:] {
				if m.From == inj.Target.Name && (m.Type == mtSwapInAgreement || m.Type == mtSwapOutAgreement) && swapIdOfPayload(m.Payload) == inj.SwapId {
					h.stop = col.Violation(h.T, "C09/id-reuse-agreement-sent", "request reusing id %s (%s) from %s was answered with an agreement\n%s", inj.SwapId[:6], inj.IdClass, inj.FromName, h.dump())
					return
				}
			}
		}
	}
}

func TestC09OnlyCounterparty(t *testing.T) {
	col := stats.Get("C09.hist")
	rapid.Check(t, func(t *rapid.T) {
		h := newHist(t, HistCfg{MaxSteps: 24, Chains: []string{"btc", "lbtc"}, Restarts: true, MultiSwap: true, Timeouts: true,
			Weights: map[string]int{"start": 3, "deliver": 5, "settle": 1, "restart": 1, "mine": 2, "inject": 6, "watcher": 2, "paid": 2, "timeout": 1}})
		defer h.Close()
		acts := h.stdActions()
		acts["inject"] = h.actInject(checkC09(col))
		h.run(acts)
		nt := false
		for c := range h.Classes {
			if strings.HasPrefix(c, "inject:") && !strings.HasSuffix(c, ":fresh") {
				nt = true
			}
		}
		col.Case(h.Key(), nt, h.Ops, h.classList()...)
	})
}
