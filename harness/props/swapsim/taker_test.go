package swapsim

import (
	"encoding/hex"
	"encoding/json"
	"fmt"

	"github.com/btcsuite/btcd/btcec/v2"
	"github.com/elementsproject/peerswap/swap"

	"verifharness/sim"
)

// takerScenario drives a real node (alice) as taker against a scripted maker (mallory).
type takerScenario struct {
	W        *sim.World
	A, M     *sim.Node
	Chain    string
	Out      bool // alice is swap-out initiator; otherwise swap-in responder
	Id       string
	Amount   uint64
	Premium  int64
	MakerKey *btcec.PrivateKey
	TakerPub string
	LND      bool
	// AfterRequest runs between alice's swap-out request and the scripted agreement.
	AfterRequest func()
}

func newTakerScenario(chain string, out, lnd bool) *takerScenario {
	w := sim.NewWorld()
	s := &takerScenario{W: w, Chain: chain, Out: out, Amount: 1_000_000, MakerKey: sim.KeyFromName("scripted-maker"), LND: lnd}
	s.A = w.AddNode("alice")
	s.M = w.AddNode("mallory")
	s.A.LNDStyle = lnd
	w.LN.AddChannel("300x3x0", s.A.Id, s.M.Id, 50_000_000_000, 50_000_000_000)
	return s
}

func (s *takerScenario) makerPub() string {
	return hex.EncodeToString(s.MakerKey.PubKey().SerializeCompressed())
}

// negotiate runs the protocol up to the point where alice waits for opening_tx_broadcasted.
func (s *takerScenario) negotiate(idHint string) error {
	asset, network := "", "regtest"
	if s.Chain == "lbtc" {
		asset, network = sim.LbtcAsset, ""
	}
	if s.Out {
		var sm *swap.SwapStateMachine
		var err error
		s.W.Step(s.A, func() { sm, err = s.A.Svc.SwapOut(s.M.Id, s.Chain, "300x3x0", s.A.Id, s.Amount, 100_000) })
		if err != nil {
			return err
		}
		s.Id = sm.SwapId.String()
		req := lastSentOfType(s.A, mtSwapOutRequest)
		var rq swap.SwapOutRequestMessage
		_ = json.Unmarshal(req.Payload, &rq)
		s.TakerPub = rq.Pubkey
		if s.AfterRequest != nil {
			// a swap-out maker knows both keys now and may already broadcast
			s.AfterRequest()
		}
		feePre := sha256hex([]byte("fee-preimage-" + s.Id))
		feeInv := &sim.Invoice{Payee: s.M.Id, Hash: sha256hex(mustHex(feePre)), AmountMsat: 1_000_000, CLTV: 18, Expiry: 600, Label: "fee-" + s.Id[:8], Preimage: feePre, CreatedBy: "mallory"}
		agr, _ := json.Marshal(&swap.SwapOutAgreementMessage{ProtocolVersion: 7, SwapId: mustSwapId(s.Id), Pubkey: s.makerPub(), Payreq: s.W.LN.RegisterInvoice(feeInv), Premium: s.Premium})
		s.A.Deliver(s.M.Id, mtSwapOutAgreement, agr)
	} else {
		s.Id = idHint
		req, _ := json.Marshal(&swap.SwapInRequestMessage{ProtocolVersion: 7, SwapId: mustSwapId(s.Id), Asset: asset, Network: network, Scid: "300x3x0", Amount: s.Amount, Pubkey: s.makerPub(), PremiumLimit: 1 << 40})
		s.A.Deliver(s.M.Id, mtSwapInRequest, req)
		ag := lastSentOfType(s.A, mtSwapInAgreement)
		if ag == nil {
			return fmt.Errorf("no agreement")
		}
		var agm swap.SwapInAgreementMessage
		_ = json.Unmarshal(ag.Payload, &agm)
		s.TakerPub = agm.Pubkey
		s.Premium = agm.Premium
	}
	rec := recOf(s.A, s.Id)
	if rec == nil || (rec.Current != swap.State_SwapOutSender_AwaitTxBroadcastedMessage && rec.Current != swap.State_SwapInReceiver_AwaitTxBroadcastedMessage) {
		st := "none"
		if rec != nil {
			st = string(rec.Current)
		}
		return fmt.Errorf("negotiation ended in %s", st)
	}
	return nil
}

// claimAmountSat / openingAmountSat as agreed.
func (s *takerScenario) claimAmountSat() uint64 {
	if s.Out {
		return uint64(int64(s.Amount) + s.Premium)
	}
	return s.Amount
}

func (s *takerScenario) openingAmountSat() uint64 {
	if s.Out {
		return s.Amount
	}
	return uint64(int64(s.Amount) + s.Premium)
}

// honestInvoice registers the claim invoice with the given final CLTV.
func (s *takerScenario) honestInvoice(cltv int64) (payreq, hash string) {
	pre := sha256hex([]byte("claim-preimage-" + s.Id))
	hash = sha256hex(mustHex(pre))
	inv := &sim.Invoice{Payee: s.M.Id, Hash: hash, AmountMsat: s.claimAmountSat() * 1000, CLTV: cltv, Expiry: 3600, Label: "claim-" + s.Id[:8], Preimage: pre, CreatedBy: "mallory"}
	return s.W.LN.RegisterInvoice(inv), hash
}

// broadcastHonestOpening puts the (token) opening transaction on chain.
func (s *takerScenario) broadcastHonestOpening(hash string) (txid string, vout uint32, err error) {
	params := &swap.OpeningParams{TakerPubkey: s.TakerPub, MakerPubkey: s.makerPub(), ClaimPaymentHash: hash, Amount: s.openingAmountSat(), CSV: csvFor(s.Chain)}
	txid, _, vout, err = s.W.ExternalOpening(s.Chain, sim.TokenScript(params), s.openingAmountSat(), 1, nil)
	return
}

func (s *takerScenario) announce(payreq, txid string, vout uint32) {
	otb, _ := json.Marshal(&swap.OpeningTxBroadcastedMessage{SwapId: mustSwapId(s.Id), Payreq: payreq, TxId: txid, ScriptOut: vout, BlindingKey: sha256hex([]byte("bk" + s.Id))})
	s.A.Deliver(s.M.Id, mtOpeningTx, otb)
}
