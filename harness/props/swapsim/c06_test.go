package swapsim

import (
	"encoding/json"
	"fmt"
	"strings"
	"testing"

	"github.com/elementsproject/peerswap/swap"
	"pgregory.net/rapid"

	"verifharness/sim"
	"verifharness/stats"
)

// originState returns the last persisted state of the swap on node n that is
// not part of the key-disclosure path (the state the decision was taken in).
func originState(n *sim.Node, id string) string {
	origin, last := "?", "?"
	for _, w := range n.Writes {
		if w.SwapId != id {
			continue
		}
		if strings.HasSuffix(w.State, "SendPrivkey") && !strings.HasSuffix(last, "SendPrivkey") {
			origin = last
		}
		last = w.State
	}
	if origin == "?" {
		return last
	}
	return origin
}

// claimHashOf returns the payment hash of the claim invoice the taker knows for the swap.
func claimHashOf(rec *swap.SwapStateMachine) string {
	if rec == nil || rec.Data == nil || rec.Data.OpeningTxBroadcasted == nil {
		return ""
	}
	inv, err := sim.DecodeInvoice(rec.Data.OpeningTxBroadcasted.Payreq)
	if err != nil {
		return ""
	}
	return inv.Hash
}

// monitorC06: no coop_close (key disclosure) while the taker's claim payment is pending or settled.
func monitorC06(col *stats.Collector) func(h *Hist) {
	return func(h *Hist) {
		for _, m := range h.W.Sent[h.sentSeen:] {
			if m.Type != mtCoopClose || m.Failed {
				continue
			}
			n := h.W.Nodes[m.From]
			var cc swap.CoopCloseMessage
			if err := json.Unmarshal(m.Payload, &cc); err != nil || cc.SwapId == nil {
				continue
			}
			id := cc.SwapId.String()
			rec := recOf(n, id)
			hash := claimHashOf(rec)
			if hash == "" {
				continue
			}
			h.class("coop-close-sent")
			st := m.PayStates[hash]
			if st == sim.PayPending || st == sim.PaySucceeded {
				origin := originState(n, id)
				key := fmt.Sprintf("C06/key-disclosed:%s:%s", strings.TrimPrefix(origin, "State_"), st)
				// What the node knew decides the root cause: a node whose durable record already holds the
				// claim preimage *knows* it has paid, and a node whose payment call has not returned yet was
				// never told that the payment failed. Neither is the listed finding (the failure path ignores
				// a payment the node was told nothing certain about), so they get keys of their own.
				if rec.Data.ClaimPreimage != "" {
					key = fmt.Sprintf("C06/key-disclosed-holding-preimage:%s", strings.TrimPrefix(origin, "State_"))
				} else if payCallInFlight(n, hash) {
					key = fmt.Sprintf("C06/key-disclosed-during-payment-call:%s", strings.TrimPrefix(origin, "State_"))
				}
				h.stop = col.Violation(h.T, key, "%s sent coop_close (private key) for swap %s while its claim payment is %s (decided in %s)\n%s\n-- log --\n%s",
					n.Name, id[:6], st, origin, h.dump(), tail(sim.LogDump(), 30))
				return
			}
		}
	}
}

// payCallInFlight reports whether a payment call of the node's live process for this hash has not
// returned yet.
func payCallInFlight(n *sim.Node, hash string) bool {
	if n.Proc == nil {
		return false
	}
	for _, pc := range n.PayCallsCopy() {
		if pc.Returned || pc.Epoch != n.Proc.Epoch || pc.Kind != "claim" {
			continue
		}
		if inv, err := sim.DecodeInvoice(pc.Payreq); err == nil && inv.Hash == hash {
			return true
		}
	}
	return false
}

func tail(s string, n int) string {
	l := strings.Split(s, "\n")
	if len(l) > n {
		l = l[len(l)-n:]
	}
	return strings.Join(l, "\n")
}

// closureC06: after a settled claim payment the taker must end in ClaimedPreimage
// with the preimage spend on chain once faults stop and the node restarts.
func closureC06(h *Hist, col *stats.Collector) {
	if h.stop {
		return
	}
	for _, n := range h.nodes() {
		n.Faults = map[string][]sim.FaultKind{}
		n.PayPlan = map[string][]sim.PayOutcome{}
		n.MineOnHeightCall = map[string][]uint32{}
	}
	h.W.CrashAt = -1
	type paid struct {
		n  *sim.Node
		id string
	}
	var paidSwaps []paid
	for _, n := range h.nodes() {
		for _, s := range n.Swaps() {
			if !isTaker(s) {
				continue
			}
			hash := claimHashOf(s)
			if p := h.W.LN.Payments[hash]; hash != "" && p != nil && p.State == sim.PaySucceeded && p.Payer == n.Name {
				paidSwaps = append(paidSwaps, paid{n, s.SwapId.String()})
			}
		}
	}
	if len(paidSwaps) == 0 {
		return
	}
	h.class("closure-with-paid-swap")
	for round := 0; round < 2; round++ {
		for _, n := range h.nodes() {
			n.Kill()
			if err := n.Boot(); err != nil {
				h.T.Fatalf("boot: %v", err)
			}
			n.Recover()
		}
		h.W.Settle(10)
		h.afterStep()
		if h.stop {
			return
		}
	}
	for _, p := range paidSwaps {
		rec := recOf(p.n, p.id)
		// ground truth: the node's preimage spend of the opening output was accepted by the chain
		found := false
		for _, sp := range p.n.Spends {
			if sp.Kind == "PreimageSpendingTransaction" && sp.TxID != "" && rec.Data.OpeningTxBroadcasted != nil && sp.PrevTx == rec.Data.OpeningTxBroadcasted.TxId {
				found = true
			}
		}
		if !found {
			origin := string(rec.Current)
			h.stop = col.Violation(h.T, "C06/paid-swap-not-claimed:"+strings.TrimPrefix(origin, "State_"),
				"%s paid the claim invoice of swap %s but after closure (state %s) no preimage spend of the opening output was accepted\n%s\n-- log --\n%s", p.n.Name, p.id[:6], rec.Current, h.dump(), tail(sim.LogDump(), 30))
			return
		}
		if rec.Current == swap.State_ClaimedPreimage {
			h.class("closure-claimed-preimage")
		} else {
			h.class("closure-claimed-but-state:" + string(rec.Current))
		}
	}
}

func runC06(t *rapid.T, col *stats.Collector, lnd bool) {
	h := newHist(t, HistCfg{MaxSteps: 30, Chains: []string{"btc", "lbtc"}, Restarts: true, Crashes: true, Faults: true, PayOutcomes: true, SlowPays: true, Timeouts: true, RecoverFaults: true, LNDStyle: lnd,
		Weights: map[string]int{"start": 0, "progress": 14, "deliver": 1, "settle": 1, "restart": 1, "mine": 2, "watcher": 1, "paid": 1, "timeout": 2, "payplan": 3, "resolve": 2, "fault": 2, "armcrash": 1}})
	defer h.Close()
	h.B.LNDStyle = lnd
	h.monitors = []func(*Hist){monitorC06(col)}
	acts := h.stdActions()
	// faults that matter here: claim broadcast failures and messaging failures
	acts["fault"] = func() {
		n := h.nodes()[rapid.IntRange(0, 1).Draw(t, "fnode")]
		call := rapid.SampledFrom([]string{"wallet.CreatePreimageSpendingTransaction", "wallet.CreatePreimageSpendingTransaction", "msg.Send", "watcher.GetBlockHeight", "ln.DecodePayreq", "store.UpdateData"}).Draw(t, "fcall")
		cnt := rapid.SampledFrom([]int{1, 2, 25, 60}).Draw(t, "fcount")
		q := make([]sim.FaultKind, cnt)
		for i := range q {
			q[i] = sim.FaultBefore
		}
		n.Faults[call] = q
		h.opf("fault(%s,%s,n=%d)", n.Name, call, cnt)
		h.class("fault:" + call)
	}
	h.run(acts)
	closureC06(h, col)
	htlc := false
	for _, p := range h.W.LN.Payments {
		if p.HTLCs > 0 {
			htlc = true
		}
	}
	paths := h.Classes["timeout-fired"] || h.Classes["fault:wallet.CreatePreimageSpendingTransaction"] || h.Classes["restart"] || h.Classes["crash-in-step"] || h.Classes["coop-close-sent"]
	col.Case(h.Key(), htlc && paths, h.Ops, h.classList()...)
}

func TestC06NoKeyAfterPayment(t *testing.T) {
	col := stats.Get("C06.hist")
	rapid.Check(t, func(t *rapid.T) { runC06(t, col, rapid.Bool().Draw(t, "lndStyle")) })
}
