package swapsim

import (
	"bytes"
	"encoding/json"
	"fmt"
	"strings"
	"testing"

	"github.com/elementsproject/peerswap/swap"
	"pgregory.net/rapid"

	"verifharness/sim"
	"verifharness/stats"
)

// monitorC15: no duplicated external effects across restarts.
func monitorC15(col *stats.Collector) func(h *Hist) {
	return func(h *Hist) {
		for _, n := range h.nodes() {
			// (1) at most one opening transaction per swap (identified by the key pair locked in it)
			seen := map[string]*sim.Opening{}
			for _, o := range n.Openings {
				k := o.Params.MakerPubkey + "|" + o.Params.TakerPubkey
				if first, ok := seen[k]; ok {
					key := "C15/second-opening-tx:same-process"
					if first.Epoch != o.Epoch {
						key = "C15/second-opening-tx:after-restart"
						// root cause of the listed finding: the wallet had broadcast the first transaction but
						// returned an error (lost reply), so the node never learnt about it
						for _, ff := range n.FaultsFired {
							if strings.HasPrefix(ff, fmt.Sprintf("wallet.CreateOpeningTransaction:%d@", sim.FaultAfter)) {
								key = "C15/second-opening-tx:after-lost-wallet-reply"
							}
						}
					}
					h.stop = col.Violation(h.T, key, "%s broadcast two opening transactions for one swap: %s (epoch %d) and %s (epoch %d)\n%s", n.Name, first.TxID[:8], first.Epoch, o.TxID[:8], o.Epoch, h.dump())
					return
				}
				seen[k] = o
			}
			// (2) no payment attempt after the swap was persisted as cancelled
			cancelledAt := map[string]int{}
			for _, w := range n.Writes {
				if w.State == "State_SwapCanceled" {
					if _, ok := cancelledAt[w.SwapId]; !ok {
						cancelledAt[w.SwapId] = w.TraceIdx
					}
				}
			}
			// ... or after the node itself told the peer that the swap is cancelled (the transport took the message)
			cancelSentAt := map[string]int{}
			for _, m := range n.SentBy() {
				if m.Type == mtCancel && !m.Failed {
					if _, ok := cancelSentAt[swapIdOfPayload(m.Payload)]; !ok {
						cancelSentAt[swapIdOfPayload(m.Payload)] = m.TraceIdx
					}
				}
			}
			for _, pc := range n.PayCalls {
				for _, s := range n.Swaps() {
					if s.Data == nil {
						continue
					}
					mine := (s.Data.OpeningTxBroadcasted != nil && s.Data.OpeningTxBroadcasted.Payreq == pc.Payreq) ||
						(s.Data.SwapOutAgreement != nil && s.Data.SwapOutAgreement.Payreq == pc.Payreq)
					if !mine {
						continue
					}
					if at, ok := cancelledAt[s.SwapId.String()]; ok && pc.TraceIdx > at {
						h.stop = col.Violation(h.T, "C15/payment-after-cancel:"+pc.Kind, "%s attempted a %s payment for swap %s after it was persisted as cancelled\n%s", n.Name, pc.Kind, s.SwapId.String()[:6], h.dump())
						return
					}
					if at, ok := cancelSentAt[s.SwapId.String()]; ok && pc.TraceIdx > at {
						h.class("pay-attempt-after-cancel-sent")
						// the state the paying process was recovered from (the last record an earlier process wrote)
						from := "same-process"
						for _, w := range n.Writes {
							if w.SwapId == s.SwapId.String() && w.Epoch < pc.Epoch {
								from = strings.TrimPrefix(w.State, "State_")
							}
						}
						h.stop = col.Violation(h.T, "C15/payment-after-cancel-sent:"+pc.Kind+":"+from, "%s attempted a %s payment for swap %s after it had sent cancel for that swap to the peer\n%s", n.Name, pc.Kind, s.SwapId.String()[:6], h.dump())
						return
					}
				}
			}
			// (3) at most one settled HTLC per invoice
			for hash, p := range h.W.LN.Payments {
				if p.Settled > 1 {
					h.stop = col.Violation(h.T, "C15/invoice-paid-twice", "invoice %s settled %d times\n%s", hash[:8], p.Settled, h.dump())
					return
				}
			}
			// (4) at most one accepted spend per opening output (second refund/claim)
			spends := map[string]int{}
			for _, sp := range n.Spends {
				if sp.TxID != "" {
					spends[fmt.Sprintf("%s:%d", sp.PrevTx, sp.PrevVout)]++
				}
			}
			for op, c := range spends {
				if c > 1 {
					h.stop = col.Violation(h.T, "C15/second-spend", "%s had %d spends of %s accepted\n%s", n.Name, c, op, h.dump())
					return
				}
			}
			// (4b) no further spend attempt of an output whose spend the node had already recorded: the first
			// accepted spend was followed by a store write of that swap in the same process, so a restarted
			// node knows about it (a crash between the broadcast and that write is the listed finding of C16)
			type firstSpend struct{ trace, epoch int }
			firstOK := map[string]firstSpend{}
			for _, sp := range n.Spends {
				op := fmt.Sprintf("%s:%d", sp.PrevTx, sp.PrevVout)
				if f, ok := firstOK[op]; ok && sp.Epoch > f.epoch {
					recorded := false
					for _, w := range n.Writes {
						if w.Epoch == f.epoch && w.TraceIdx > f.trace {
							var rec swap.SwapStateMachine
							if json.Unmarshal(w.JSON, &rec) == nil && rec.Data != nil && rec.Data.OpeningTxBroadcasted != nil && rec.Data.OpeningTxBroadcasted.TxId == sp.PrevTx {
								recorded = true
							}
						}
					}
					if recorded {
						h.stop = col.Violation(h.T, "C15/second-spend-attempt:after-recorded-spend:"+sp.Kind, "%s tried to spend %s again (%s, epoch %d) although its earlier spend was accepted in epoch %d and the swap was written to the store afterwards\n%s", n.Name, op, sp.Kind, sp.Epoch, f.epoch, h.dump())
						return
					}
				}
				if sp.TxID != "" && !sp.ReplyLost {
					// accepted by the chain and reported to the node as a success
					if _, ok := firstOK[op]; !ok {
						firstOK[op] = firstSpend{sp.TraceIdx, sp.Epoch}
					}
				}
			}
			// (5) a re-sent request / agreement carries the same parameters
			first := map[string][]byte{}
			for _, m := range n.SentBy() {
				if m.Type != mtSwapInRequest && m.Type != mtSwapOutRequest && m.Type != mtSwapInAgreement && m.Type != mtSwapOutAgreement {
					continue
				}
				k := fmt.Sprintf("%d|%s", m.Type, swapIdOfPayload(m.Payload))
				if f, ok := first[k]; ok {
					h.class("negotiation-message-resent")
					if !bytes.Equal(f, m.Payload) {
						h.stop = col.Violation(h.T, fmt.Sprintf("C15/resent-message-differs:%d", m.Type), "%s re-sent message %d with different content:\n first %s\n later %s\n%s", n.Name, m.Type, f, m.Payload, h.dump())
						return
					}
				} else {
					first[k] = m.Payload
				}
			}
		}
	}
}

func TestC15NoDuplicates(t *testing.T) {
	col := stats.Get("C15.hist")
	rapid.Check(t, func(t *rapid.T) {
		h := newHist(t, HistCfg{MaxSteps: 30, Chains: []string{"btc", "lbtc"}, Restarts: true, Crashes: true, Faults: true, PayOutcomes: true, Timeouts: true,
			LNDStyle: rapid.Bool().Draw(t, "lnd"),
			Weights:  map[string]int{"start": 0, "progress": 14, "deliver": 1, "settle": 1, "restart": 2, "mine": 2, "watcher": 1, "paid": 1, "timeout": 1, "payplan": 1, "resolve": 1, "fault": 1, "armcrash": 4}})
		defer h.Close()
		h.B.LNDStyle = h.A.LNDStyle
		h.monitors = []func(*Hist){monitorC15(col)}
		h.run(h.stdActions())
		// continue honestly for a while so that a recovered node shows what it does next
		for i := 0; i < 3 && !h.stop; i++ {
			h.actSettle()
			h.afterStep()
			h.W.Mine("btc", 1)
			h.W.Mine("lbtc", 1)
		}
		// non-trivial: a crash landed between an external effect and the next store write
		nt := false
		tr := h.W.TraceCopy()
		for _, n := range h.nodes() {
			for ep := 1; ep < n.Epochs; ep++ {
				var lastEffect, lastWrite = -1, -1
				for _, e := range tr {
					if e.Node != n.Name || e.Epoch != ep || e.Phase != "exit" {
						continue
					}
					switch e.Call {
					case "store.UpdateData":
						lastWrite = e.Idx
					case "wallet.CreateOpeningTransaction", "ln.Pay.claim", "ln.Pay.fee", "msg.Send", "wallet.CreatePreimageSpendingTransaction", "wallet.CreateCsvSpendingTransaction", "wallet.CreateCoopSpendingTransaction", "ln.GetPayreq":
						lastEffect = e.Idx
					}
				}
				if lastEffect > lastWrite {
					nt = true
					h.class("died-between-effect-and-write")
				}
			}
		}
		col.Case(h.Key(), nt, h.Ops, h.classList()...)
	})
}
