package swapsim

import (
	"testing"

	"verifharness/sim"
)

func twoNodes(t testing.TB) (*sim.World, *sim.Node, *sim.Node) {
	w := sim.NewWorld()
	a := w.AddNode("alice")
	b := w.AddNode("bob")
	w.LN.AddChannel("100x1x0", a.Id, b.Id, 5_000_000_000, 5_000_000_000)
	if err := a.Boot(); err != nil {
		t.Fatal(err)
	}
	if err := b.Boot(); err != nil {
		t.Fatal(err)
	}
	return w, a, b
}

func TestSmokeHonestSwaps(t *testing.T) {
	for _, chain := range []string{"btc", "lbtc"} {
		for _, typ := range []string{"out", "in"} {
			w, a, b := twoNodes(t)
			var err error
			w.Step(a, func() {
				if typ == "out" {
					_, err = a.Svc.SwapOut(b.Id, chain, "100x1x0", a.Id, 1_000_000, 10_000)
				} else {
					_, err = a.Svc.SwapIn(b.Id, chain, "100x1x0", a.Id, 1_000_000, 10_000)
				}
			})
			if err != nil {
				t.Fatalf("%s %s: %v", chain, typ, err)
			}
			w.Settle(20)
			w.Mine(chain, 3)
			w.Settle(20)
			for _, n := range []*sim.Node{a, b} {
				for _, s := range n.Swaps() {
					t.Logf("%s %s: node %s swap %s state %s", chain, typ, n.Name, s.SwapId.String()[:8], s.Current)
					if s.Current != "State_ClaimedPreimage" {
						t.Errorf("unexpected final state %s\n%s", s.Current, sim.LogDump())
					}
				}
			}
			w.Close()
		}
	}
}
