package swapsim

import (
	"fmt"
	"testing"

	"pgregory.net/rapid"

	"verifharness/sim"
	"verifharness/stats"
)

// monitorC10: at most one non-terminal swap per (normalised) channel on every node.
func monitorC10(col *stats.Collector) func(h *Hist) {
	return func(h *Hist) {
		for _, n := range h.nodes() {
			byChan := map[string][]string{}
			pre := map[string]bool{}
			for _, s := range n.Swaps() {
				if isTerminal(s.Current) || s.Data == nil {
					continue
				}
				scid := s.Data.GetScid()
				if scid == "" {
					continue
				}
				byChan[sim.NormScid(scid)] = append(byChan[sim.NormScid(scid)], fmt.Sprintf("%s(%s,%s)", s.SwapId.String()[:6], scid, s.Current))
				if h.preRecovery[s.SwapId.String()] {
					pre[sim.NormScid(scid)] = true
				}
			}
			for ch, l := range byChan {
				if len(l) > 1 {
					key := "C10/two-active-swaps"
					if pre[ch] {
						key = "C10/request-before-recovery"
					}
					h.stop = col.Violation(h.T, key, "node %s has %d non-terminal swaps on channel %s: %v\n%s", n.Name, len(l), ch, l, h.dump())
					return
				}
			}
		}
	}
}

func TestC10OneSwapPerChannel(t *testing.T) {
	col := stats.Get("C10.hist")
	rapid.Check(t, func(t *rapid.T) {
		h := newHist(t, HistCfg{MaxSteps: 18, Chains: []string{"btc", "lbtc"}, Restarts: true, MultiSwap: true, PeerMoves: true, Timeouts: true,
			Weights: map[string]int{"start": 4, "deliver": 3, "progress": 4, "settle": 1, "restart": 1, "mine": 1, "peermove": 2, "timeout": 1}})
		defer h.Close()
		h.monitors = []func(*Hist){monitorC10(col)}
		h.run(h.stdActions())
		starts := 0
		spell := map[string]bool{}
		for _, o := range h.Ops {
			if len(o) > 6 && o[:6] == "start(" {
				starts++
				if containsStr(o, ":") {
					spell[":"] = true
				} else {
					spell["x"] = true
				}
			}
		}
		nt := starts >= 2 && (len(spell) == 2 || h.Classes["restart"])
		col.Case(h.Key(), nt, h.Ops, h.classList()...)
	})
}

func containsStr(s, sub string) bool {
	for i := 0; i+len(sub) <= len(s); i++ {
		if s[i:i+len(sub)] == sub {
			return true
		}
	}
	return false
}
