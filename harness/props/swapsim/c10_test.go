package swapsim

import (
	"encoding/hex"
	"fmt"
	"testing"
	"time"

	"pgregory.net/rapid"

	"verifharness/sim"
	"verifharness/stats"
)

// monitorC10: at most one non-terminal swap per (normalised) channel on every node.
func monitorC10(col *stats.Collector) func(h *Hist) {
	return func(h *Hist) {
		for _, n := range h.nodes() {
			byChan := map[string][]string{}
			pre := map[string]bool{}
			for _, s := range n.Swaps() {
				if isTerminal(s.Current) || s.Data == nil {
					continue
				}
				scid := s.Data.GetScid()
				if scid == "" {
					continue
				}
				byChan[sim.NormScid(scid)] = append(byChan[sim.NormScid(scid)], fmt.Sprintf("%s(%s,%s)", s.SwapId.String()[:6], scid, s.Current))
				if h.preRecovery[s.SwapId.String()] {
					pre[sim.NormScid(scid)] = true
				}
			}
			for ch, l := range byChan {
				if len(l) > 1 {
					key := "C10/two-active-swaps"
					if pre[ch] {
						key = "C10/request-before-recovery"
					}
					h.stop = col.Violation(h.T, key, "node %s has %d non-terminal swaps on channel %s: %v\n%s", n.Name, len(l), ch, l, h.dump())
					return
				}
			}
		}
	}
}

func TestC10OneSwapPerChannel(t *testing.T) {
	col := stats.Get("C10.hist")
	rapid.Check(t, func(t *rapid.T) {
		h := newHist(t, HistCfg{MaxSteps: 18, Chains: []string{"btc", "lbtc"}, Restarts: true, MultiSwap: true, PeerMoves: true, Timeouts: true,
			Weights: map[string]int{"start": 4, "deliver": 3, "progress": 4, "settle": 1, "restart": 1, "mine": 1, "peermove": 2, "timeout": 1, "storefault": 2}})
		defer h.Close()
		h.monitors = []func(*Hist){monitorC10(col)}
		acts := h.stdActions()
		// one of the next store writes (or sends) of a node fails: an initiation or a request handler that
		// breaks off half-way must not leave a persisted, non-terminal swap behind an unlocked channel
		acts["storefault"] = func() {
			n := h.nodes()[rapid.IntRange(0, 1).Draw(t, "sfNode")]
			call := rapid.SampledFrom([]string{"store.UpdateData", "store.UpdateData", "msg.Send"}).Draw(t, "sfCall")
			var q []sim.FaultKind
			for i, k := 0, rapid.IntRange(0, 3).Draw(t, "sfSkip"); i < k; i++ {
				q = append(q, sim.FaultNone)
			}
			n.Faults[call] = append(q, sim.FaultBefore)
			h.opf("fault(%s,%s,skip=%d)", n.Name, call, len(q)-1)
			h.class("fault:" + call)
		}
		h.run(acts)
		starts := 0
		spell := map[string]bool{}
		for _, o := range h.Ops {
			if len(o) > 6 && o[:6] == "start(" {
				starts++
				if containsStr(o, ":") {
					spell[":"] = true
				} else {
					spell["x"] = true
				}
			}
		}
		nt := starts >= 2 && (len(spell) == 2 || h.Classes["restart"])
		col.Case(h.Key(), nt, h.Ops, h.classList()...)
	})
}

func containsStr(s, sub string) bool {
	for i := 0; i+len(sub) <= len(s); i++ {
		if s[i:i+len(sub)] == sub {
			return true
		}
	}
	return false
}

// TestC10ConcurrentRequests: the channel lock under overlapping entry points. A request (or a recovery) is
// parked at a scheduling point inside its handler - while it talks to the lightning node, the watcher or
// the store - and a second request for the same channel (either spelling, from the same peer) is handled
// meanwhile on another goroutine, as the daemon's message loop does. However the two interleave, the
// channel ends with at most one non-terminal swap and the loser is answered with cancel.
func TestC10ConcurrentRequests(t *testing.T) {
	col := stats.Get("C10.concurrent")
	rapid.Check(t, func(t *rapid.T) {
		sim.CaseStart(t)
		w := sim.NewWorld()
		defer w.Close()
		a := w.AddNode("alice")
		m := w.AddNode("mallory")
		w.LN.AddChannel("300x3x0", a.Id, m.Id, 5_000_000_000, 5_000_000_000)
		w.LN.AddChannel("400x4x0", a.Id, m.Id, 5_000_000_000, 5_000_000_000)
		if err := a.Boot(); err != nil {
			t.Fatal(err)
		}
		chain := rapid.SampledFrom([]string{"btc", "lbtc"}).Draw(t, "chain")
		key := hex.EncodeToString(sim.KeyFromName("c10-requester").PubKey().SerializeCompressed())
		scids := []string{"300x3x0", "300:3:0"}
		mode := rapid.SampledFrom([]string{"two-requests", "two-requests", "request-during-recovery"}).Draw(t, "mode")
		t1, t2 := rapid.SampledFrom([]int{mtSwapInRequest, mtSwapOutRequest}).Draw(t, "type1"), rapid.SampledFrom([]int{mtSwapInRequest, mtSwapOutRequest}).Draw(t, "type2")
		id1, id2 := freshId(t), freshId(t)
		deliver := func(typ int, id, scid string) *goTask {
			p := buildMessage(t, typ, id, scid, chain, key)
			return goRun(func() { a.Deliver(m.Id, typ, p) })
		}
		var parkAt string
		desc := ""
		if mode == "two-requests" {
			parkAt = rapid.SampledFrom([]string{"ln.ProbePayment:enter", "ln.ReceivableMsat:enter", "ln.SpendableMsat:enter", "store.UpdateData:enter", "wallet.GetOnchainBalance:enter", "ln.GetPayreq:enter", "msg.Send:enter"}).Draw(t, "parkAt")
			parked := make(chan struct{})
			w.Locked(func() { w.ParkOn, w.ParkOnNode, w.Parked = parkAt, "alice", parked })
			r1 := deliver(t1, id1, rapid.SampledFrom(scids).Draw(t, "scid1"))
			select {
			case <-parked:
			case <-r1.done:
			case <-time.After(2 * time.Second):
			}
			r2 := deliver(t2, id2, rapid.SampledFrom(scids).Draw(t, "scid2"))
			r2.wait(300 * time.Millisecond) // it may finish now or have to wait for the first one
			w.Locked(func() { w.ParkOn = "" })
			w.Release()
			if !r1.wait(5*time.Second) || !r2.wait(5*time.Second) {
				t.Fatalf("VKEY[C18/entry-point-never-returned] overlapping requests (parked at %s) never returned", parkAt)
			}
			desc = fmt.Sprintf("two-requests types=%d,%d park=%s chain=%s", t1, t2, parkAt, chain)
		} else {
			// a swap is under way, the node restarts, and a request arrives while RecoverSwaps is running
			r1 := deliver(t1, id1, scids[0])
			r1.wait(5 * time.Second)
			// a second unfinished swap on another channel: the restart has two swaps to restore
			other := rapid.Bool().Draw(t, "secondSwapOnOtherChannel")
			if other {
				deliver(rapid.SampledFrom([]int{mtSwapInRequest, mtSwapOutRequest}).Draw(t, "type0"), freshId(t), "400x4x0").wait(5 * time.Second)
			}
			a.Kill()
			if err := a.Boot(); err != nil {
				t.Fatal(err)
			}
			parkAt = rapid.SampledFrom([]string{"ln.AddPaymentNotifier:enter", "store.UpdateData:enter", "watcher.GetBlockHeight:enter", "msg.Send:enter", "mgr.RemoveSender:enter"}).Draw(t, "parkAt")
			parked := make(chan struct{})
			w.Locked(func() { w.ParkOn, w.ParkOnNode, w.Parked = parkAt, "alice", parked })
			rec := goRun(func() { a.Recover() })
			select {
			case <-parked:
			case <-rec.done:
			case <-time.After(2 * time.Second):
			}
			if rec.finished() {
				// recovery did not pass that point: the request below arrives after recovery (plain case)
				parkAt += "(not reached)"
			}
			// RecoverSwaps restores the swaps concurrently: give the swap whose recovery is not parked time
			// to take its channel (a request that beats it is the recorded finding C10-request-before-recovery,
			// not what this mode is about)
			if other && !rec.finished() {
				waitUntilC10(func() bool { return len(a.Svc.VerifActiveSwapIds()) >= 2 || rec.finished() }, 3*time.Second)
			}
			// the request asks for one of the channels that have a swap to restore (the one whose recovery
			// is parked, or the other one)
			reqScids := scids
			if other && rapid.Bool().Draw(t, "requestOtherChannel") {
				reqScids = []string{"400x4x0", "400:4:0"}
			}
			r2 := deliver(t2, id2, rapid.SampledFrom(reqScids).Draw(t, "scid2"))
			r2.wait(300 * time.Millisecond)
			w.Locked(func() { w.ParkOn = "" })
			w.Release()
			if !rec.wait(5*time.Second) || !r2.wait(5*time.Second) {
				t.Fatalf("VKEY[C18/entry-point-never-returned] request during recovery (parked at %s) never returned", parkAt)
			}
			desc = fmt.Sprintf("request-during-recovery types=%d,%d park=%s chain=%s twoSwaps=%v", t1, t2, parkAt, chain, other)
		}
		// the invariant
		var live []string
		perChan := map[string][]string{}
		for _, s := range a.Swaps() {
			if !isTerminal(s.Current) && s.Data != nil {
				c := sim.NormScid(s.Data.GetScid())
				perChan[c] = append(perChan[c], fmt.Sprintf("%s(%s)", s.SwapId.String()[:6], s.Current))
			}
		}
		for _, c := range []string{"300x3x0", "400x4x0"} {
			if len(perChan[c]) > len(live) {
				live = perChan[c]
			}
		}
		if len(live) > 1 {
			key := "C10/two-active-swaps:overlapping-requests"
			if mode != "two-requests" {
				key = "C10/two-active-swaps:request-during-recovery"
			}
			col.Violation(t, key, "%s: the channel has %d non-terminal swaps: %v\n%s", desc, len(live), live, tail(sim.LogDump(), 20))
			return
		}
		// whoever was refused got a cancel
		for _, id := range []string{id1, id2} {
			rec := recOf(a, id)
			admitted := rec != nil && !isTerminal(rec.Current)
			if !admitted && !sentCancelFor(a, id) && rec != nil {
				col.Violation(t, "C10/refused-without-cancel", "%s: request %s was refused (state %s) but no cancel was sent", desc, id[:6], rec.Current)
				return
			}
		}
		col.Case(desc, true, map[string]interface{}{"mode": mode, "park": parkAt, "live": live}, "mode:"+mode, fmt.Sprintf("live:%d", len(live)))
	})
}

type goTask struct{ done chan struct{} }

func goRun(f func()) *goTask {
	g := &goTask{done: make(chan struct{})}
	go func() { defer close(g.done); f() }()
	return g
}

func (g *goTask) wait(d time.Duration) bool {
	select {
	case <-g.done:
		return true
	case <-time.After(d):
		return false
	}
}

func (g *goTask) finished() bool {
	select {
	case <-g.done:
		return true
	default:
		return false
	}
}

func waitUntilC10(cond func() bool, d time.Duration) bool {
	dl := time.Now().Add(d)
	for time.Now().Before(dl) {
		if cond() {
			return true
		}
		time.Sleep(300 * time.Microsecond)
	}
	return cond()
}
