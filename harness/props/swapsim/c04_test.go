package swapsim

import (
	"bytes"
	"fmt"
	"math/big"
	"testing"

	"github.com/elementsproject/peerswap/swap"
	"go.etcd.io/bbolt"
	"pgregory.net/rapid"

	"verifharness/pbt"
	"verifharness/sim"
	"verifharness/stats"
)

// downgradeRecordToV6 rewrites the persisted record of a swap so that it looks
// like one negotiated with protocol version 6 (a legacy swap from before an upgrade).
func downgradeRecordToV6(db *bbolt.DB, id string) error {
	return db.Update(func(tx *bbolt.Tx) error {
		b := tx.Bucket([]byte("swaps"))
		key := mustHex(id)
		v := b.Get(key)
		if v == nil {
			return fmt.Errorf("record not found")
		}
		nv := bytes.ReplaceAll(v, []byte(`"protocol_version":7`), []byte(`"protocol_version":6`))
		return b.Put(key, nv)
	})
}

func TestC04LiquidPaymentWindow(t *testing.T) {
	col := stats.Get("C04.hist")
	rapid.Check(t, func(t *rapid.T) {
		lnd := rapid.Bool().Draw(t, "lnd")
		out := rapid.Bool().Draw(t, "swapOut")
		sim.CaseStart(t)
		s := newTakerScenario("lbtc", out, lnd)
		defer s.W.Close()
		// anchors incl. small heights and the uint32 edge
		s.W.Chains["lbtc"].Height = rapid.SampledFrom([]uint32{2_000_000, 2_000_000, 5, 0, 1<<32 - 200, 1<<32 - 61, 1<<32 - 59, 1<<32 - 30}).Draw(t, "anchorHeight")
		if err := s.A.Boot(); err != nil {
			t.Fatal(err)
		}
		cltv := rapid.OneOf(rapid.SampledFrom([]int64{0, 9, 18, 28, 29, 29, 29, 30, 31, 32, 40, 144}), rapid.Int64Range(0, 29), rapid.Int64Range(0, 40)).Draw(t, "invoiceCLTV")
		if err := s.negotiate(freshId(t)); err != nil {
			t.Skip("negotiation failed: " + err.Error())
		}
		rec := recOf(s.A, s.Id)
		anchor := rec.Data.StartingBlockHeight
		anchorSet := rec.Data.StartingBlockHeightSet
		legacy := rapid.IntRange(0, 3).Draw(t, "legacy") == 0
		legacyAfterPaymentCrash := legacy && rapid.Bool().Draw(t, "legacyAfterPaymentCrash")
		payreq, hash := s.honestInvoice(cltv)
		// the chain moves before / after the announcement
		pre := rapid.SampledFrom([]uint32{0, 0, 1, 10, 55, 57, 58}).Draw(t, "blocksBeforeBroadcast")
		if uint64(s.W.Height("lbtc"))+uint64(pre)+80 < 1<<32 {
			s.W.Mine("lbtc", pre)
		}
		txid, vout, err := s.broadcastHonestOpening(hash)
		if err != nil {
			t.Fatalf("opening: %v", err)
		}
		s.announce(payreq, txid, vout)
		if legacyAfterPaymentCrash {
			// the old process dies while paying: the record keeps the confirmed opening tx, the payment exists
			s.W.Mine("lbtc", 2)
			outcome := rapid.SampledFrom([]sim.PayOutcome{sim.PaySuccess, sim.PayErrPending, sim.PayFailClean}).Draw(t, "outcomeBeforeCrash")
			s.A.PayPlan["claim"] = []sim.PayOutcome{outcome}
			s.W.CrashOn, s.W.CrashOnNode = "ln.Pay.claim:exit", "alice"
			for _, ev := range s.A.DueWatcherEvents() {
				s.A.DeliverWatcherEvent(ev)
			}
			s.W.CrashOn = ""
			payCallsBefore := len(s.A.PayCalls)
			s.A.Kill()
			if err := downgradeRecordToV6(s.A.DB, s.Id); err != nil {
				t.Fatalf("downgrade: %v", err)
			}
			s.A.PayCalls = s.A.PayCalls[:0] // attempts of the v7 process are not judged as legacy attempts
			_ = payCallsBefore
			if err := s.A.Boot(); err != nil {
				t.Fatal(err)
			}
			s.A.Recover()
		} else if legacy {
			// the node is upgraded while the swap waits for its confirmation: the record is a protocol-6 swap
			s.A.Kill()
			if err := downgradeRecordToV6(s.A.DB, s.Id); err != nil {
				t.Fatalf("downgrade: %v", err)
			}
			if rapid.Bool().Draw(t, "legacyPaymentExists") {
				// a claim payment from before the upgrade exists (pending or settled)
				st := rapid.SampledFrom([]sim.PayState{sim.PayPending, sim.PaySucceeded, sim.PayFailed}).Draw(t, "legacyPayState")
				s.W.LN.Payments[hash] = &sim.Payment{Hash: hash, Payer: "alice", Payreq: payreq, State: st, HTLCs: 1}
			}
			if err := s.A.Boot(); err != nil {
				t.Fatal(err)
			}
			s.A.Recover()
		}
		conf := rapid.SampledFrom([]uint32{2, 2, 2, 3, 1}).Draw(t, "confBlocks")
		if uint64(s.W.Height("lbtc"))+uint64(conf)+70 < 1<<32 {
			s.W.Mine("lbtc", conf)
		}
		extra := rapid.SampledFrom([]uint32{0, 0, 20, 50, 54, 55, 56, 57, 58, 59, 60}).Draw(t, "delayBeforeCallback")
		if uint64(s.W.Height("lbtc"))+uint64(extra)+10 < 1<<32 {
			s.W.Mine("lbtc", extra)
		}
		nfail := rapid.IntRange(0, 3).Draw(t, "failingAttempts")
		plan := make([]sim.PayOutcome, nfail)
		for i := range plan {
			plan[i] = sim.PayFailClean
		}
		s.A.PayPlan["claim"] = plan
		if nfail > 0 {
			mines := []uint32{0}
			for i := 0; i <= nfail; i++ {
				mines = append(mines, rapid.SampledFrom([]uint32{0, 1, 2, 3}).Draw(t, "mineDuringRetry"))
			}
			s.A.MineOnHeightCall["lbtc"] = mines
		}
		restart := rapid.IntRange(0, 3).Draw(t, "restart") == 0
		if restart {
			s.A.Kill()
			if err := s.A.Boot(); err != nil {
				t.Fatal(err)
			}
			s.A.Recover()
		}
		for i := 0; i < 3; i++ {
			for _, ev := range s.A.DueWatcherEvents() {
				s.A.DeliverWatcherEvent(ev)
			}
		}
		desc := fmt.Sprintf("lnd=%v out=%v anchor=%d(set=%v) cltv=%d legacy=%v pre=%d conf=%d extra=%d nfail=%d restart=%v", lnd, out, anchor, anchorSet, cltv, legacy, pre, conf, extra, nfail, restart)
		attempts, edge := 0, false
		maxTip := uint64(0)
		for _, pc := range s.A.PayCalls {
			if pc.Kind != "claim" {
				continue
			}
			attempts++
			if legacy {
				col.Violation(t, "C04/legacy-swap-creates-payment", "%s: a protocol-6 liquid swap created a new claim payment (RebalancePayment) at height %d", desc, pc.HeightLbc)
				return
			}
			cur := recOf(s.A, s.Id)
			if !cur.Data.StartingBlockHeightSet || !anchorSet {
				col.Violation(t, "C04/payment-without-anchor", "%s: claim payment without a persisted anchor", desc)
				return
			}
			tip, an := new(big.Int).SetUint64(uint64(pc.HeightLbc)), new(big.Int).SetUint64(uint64(anchor))
			deadline := new(big.Int).Add(an, big.NewInt(60))
			if tip.Cmp(an) < 0 || tip.Cmp(deadline) >= 0 {
				col.Violation(t, "C04/payment-outside-window", "%s: claim payment at liquid height %d, window is [%d,%s)", desc, pc.HeightLbc, anchor, deadline)
				return
			}
			if cltv > 29 {
				col.Violation(t, "C04/invoice-cltv-above-29", "%s: claim payment for an invoice with final CLTV %d", desc, cltv)
				return
			}
			if pc.MaxTotal != 32 {
				col.Violation(t, "C04/route-cltv-limit", "%s: claim payment with total route CLTV limit %d, want 32", desc, pc.MaxTotal)
				return
			}
			d := new(big.Int).Sub(deadline, tip).Int64()
			if d <= 2 || new(big.Int).Sub(tip, an).Int64() <= 2 || cltv >= 28 {
				edge = true
			}
			if uint64(pc.HeightLbc) > maxTip {
				maxTip = uint64(pc.HeightLbc)
			}
		}
		cls := []string{fmt.Sprintf("attempts:%d", min(attempts, 3)), fmt.Sprintf("legacy:%v", legacy)}
		if legacy && s.A.RecoverCalls > 0 {
			cls = append(cls, "legacy-followed-existing-payment")
		}
		if anchor > 1<<32-100 {
			cls = append(cls, "anchor-near-2^32")
		}
		col.Case(desc, edge || (legacy && s.A.RecoverCalls > 0), map[string]interface{}{"lnd": lnd, "swap_out": out, "anchor": anchor, "invoice_cltv": cltv, "legacy": legacy, "attempts": attempts, "max_payment_height": maxTip}, cls...)
	})
}

// TestC04WindowHelperDifferential compares checkPaymentWindow / validateClaimInvoice
// / the per-chain limits with big-integer models over the whole uint32 range.
func TestC04WindowHelperDifferential(t *testing.T) { propC04WindowHelperDifferential(t) }

// FuzzC04WindowHelperDifferential drives the same property body with Go's coverage-guided fuzzer (thorough tier).
func FuzzC04WindowHelperDifferential(f *testing.F) { propC04WindowHelperDifferential(f) }

func propC04WindowHelperDifferential(t testing.TB) {
	col := stats.Get("C04.helpers")
	pbt.Run(t, func(t *rapid.T) {
		anchor := rapid.OneOf(rapid.Uint32(), rapid.SampledFrom([]uint32{0, 1, 59, 60, 1<<32 - 1, 1<<32 - 60, 1<<32 - 61})).Draw(t, "anchor")
		delta := rapid.SampledFrom([]int64{-2, -1, 0, 1, 58, 59, 60, 61, 1 << 31}).Draw(t, "delta")
		cur := uint32(int64(anchor) + delta)
		if rapid.Bool().Draw(t, "randomCurrent") {
			cur = rapid.Uint32().Draw(t, "current")
		}
		set := rapid.IntRange(0, 5).Draw(t, "set") > 0
		window := rapid.SampledFrom([]uint32{60, 60, 30, 0, 1<<32 - 1}).Draw(t, "window")
		err := swap.VerifCheckPaymentWindow(anchor, set, cur, window)
		want := set && uint64(cur) >= uint64(anchor) && uint64(cur) < uint64(anchor)+uint64(window)
		if (err == nil) != want {
			t.Fatalf("VKEY[C04/window-helper] checkPaymentWindow(anchor=%d,set=%v,current=%d,window=%d) = %v, model says open=%v", anchor, set, cur, window, err, want)
		}
		amt := rapid.SampledFrom([]uint64{0, 1, 1000, 1_000_000, 18446744073709551}).Draw(t, "claimSat")
		msat := rapid.SampledFrom([]uint64{amt * 1000, amt*1000 + 1, amt * 1000 / 2, 0}).Draw(t, "invoiceMsat")
		cltv := rapid.SampledFrom([]int64{-1, 0, 28, 29, 30, 503, 504, 1 << 40}).Draw(t, "cltv")
		maxC := rapid.SampledFrom([]uint64{29, 503}).Draw(t, "maxCltv")
		verr := swap.VerifValidateClaimInvoice(msat, cltv, amt, maxC)
		vwant := cltv >= 0 && uint64(cltv) <= maxC && new(big.Int).SetUint64(msat).Cmp(new(big.Int).Mul(new(big.Int).SetUint64(amt), big.NewInt(1000))) == 0
		if (verr == nil) != vwant {
			t.Fatalf("VKEY[C04/invoice-helper] validateClaimInvoice(msat=%d,cltv=%d,claim=%d,max=%d) = %v, model %v", msat, cltv, amt, maxC, verr, vwant)
		}
		// the documented per-chain limits
		csv, win, fc, mt, allow, perr := swap.VerifTimelockPolicy(sim.LbtcAsset, "", 7)
		if perr != nil || csv != 10080 || win != 60 || fc != 29 || mt != 32 || !allow {
			t.Fatalf("VKEY[C04/policy-constants] liquid v7 policy = csv %d window %d cltv %d total %d allow %v err %v", csv, win, fc, mt, allow, perr)
		}
		csv, _, _, _, allow, perr = swap.VerifTimelockPolicy(sim.LbtcAsset, "", 6)
		if perr != nil || csv != 60 || allow {
			t.Fatalf("VKEY[C04/policy-constants] liquid v6 policy = csv %d allow %v err %v", csv, allow, perr)
		}
		csv, win, fc, _, allow, perr = swap.VerifTimelockPolicy("", "regtest", 7)
		if perr != nil || csv != 1008 || win != 504 || fc != 503 || !allow {
			t.Fatalf("VKEY[C05/policy-constants] bitcoin policy = csv %d window %d cltv %d allow %v err %v", csv, win, fc, allow, perr)
		}
		// the arithmetic consequence the property states: 60 one-minute blocks + 32 bitcoin blocks resolve before the 10080-minute csv
		if minutes := uint64(win)*0 + 60 + 10021; minutes >= 10080+60 {
			t.Fatalf("arithmetic")
		}
		edge := delta >= 58 && delta <= 61 || delta <= 1
		col.Case(fmt.Sprintf("%d|%d|%v|%d|%d|%d|%d", anchor, cur, set, window, msat, cltv, amt), edge, map[string]interface{}{"anchor": anchor, "current": cur, "set": set, "window": window, "open": want})
	})
}
