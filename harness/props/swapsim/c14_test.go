package swapsim

import (
	"encoding/hex"
	"encoding/json"
	"fmt"
	"reflect"
	"strings"
	"testing"

	"github.com/elementsproject/peerswap/swap"
	"pgregory.net/rapid"

	"verifharness/sim"
	"verifharness/stats"
)

// refusalCase is one refused swap request for the restart check of C14.
type refusalCase struct {
	Out, Liquid bool
	Dev         string // which admission condition is broken
	Pick        int    // selects among the variants of a deviation
	Id          string
	Scid        string
}

var refusalDevs = []string{"version", "amount-zero", "amount-over-capacity", "bad-pubkey", "bad-scid", "both-chains", "no-chain", "wrong-network", "wrong-asset",
	"unknown-channel", "not-allowlisted", "swaps-disabled", "premium-over-limit"}

func (c refusalCase) build() (typ int, payload []byte, pol string) {
	keyHex := hex.EncodeToString(sim.KeyFromName("requester-swapkey").PubKey().SerializeCompressed())
	ver, amount, scid, pubkey, limit := uint8(7), uint64(1_000_000), c.Scid, keyHex, int64(100_000)
	asset, network := "", "regtest"
	if c.Liquid {
		asset, network = sim.LbtcAsset, ""
	}
	pol = "accept_all_peers=true\n"
	switch c.Dev {
	case "version":
		ver = []uint8{6, 8, 0, 255}[c.Pick%4]
	case "amount-zero":
		amount = 0
	case "amount-over-capacity":
		amount = 5_000_001
	case "bad-pubkey":
		pubkey = []string{keyHex[:64], keyHex + "00", "zz", ""}[c.Pick%4]
	case "bad-scid":
		scid = []string{"300x3", "abc", "", "300x3x0x1"}[c.Pick%4]
	case "both-chains":
		asset, network = sim.LbtcAsset, "regtest"
	case "no-chain":
		asset, network = "", ""
	case "wrong-network":
		asset, network = "", []string{"mainnet", "bogus"}[c.Pick%2]
	case "wrong-asset":
		asset, network = []string{"abcd", "xyz"}[c.Pick%2], ""
	case "unknown-channel":
		scid = "9x9x9"
	case "not-allowlisted":
		pol = ""
	case "swaps-disabled":
		pol += "allow_new_swaps=false\n"
	case "premium-over-limit":
		limit = -1_000_000
	}
	typ = mtSwapInRequest
	if c.Out {
		typ = mtSwapOutRequest
		payload, _ = json.Marshal(&swap.SwapOutRequestMessage{ProtocolVersion: ver, SwapId: mustSwapId(c.Id), Asset: asset, Network: network, Scid: scid, Amount: amount, Pubkey: pubkey, PremiumLimit: limit})
	} else {
		payload, _ = json.Marshal(&swap.SwapInRequestMessage{ProtocolVersion: ver, SwapId: mustSwapId(c.Id), Asset: asset, Network: network, Scid: scid, Amount: amount, Pubkey: pubkey, PremiumLimit: limit})
	}
	return
}

type c14T interface {
	Fatalf(format string, args ...interface{})
}

func refusalSetup(t c14T, pol string) (*sim.World, *sim.Node, *sim.Node) {
	sim.CaseStart(t)
	w := sim.NewWorld()
	a := w.AddNode("alice")
	m := w.AddNode("mallory")
	a.WritePolicy(pol)
	w.LN.AddChannel("300x3x0", a.Id, m.Id, 5_000_000_000, 5_000_000_000)
	if err := a.Boot(); err != nil {
		t.Fatalf("boot: %v", err)
	}
	return w, a, m
}

func cancelsTo(a, m *sim.Node) [][]byte {
	var out [][]byte
	for _, s := range a.SentBy() {
		if s.To == m.Id && s.Type == mtCancel {
			out = append(out, s.Payload)
		}
	}
	return out
}

// refusalReference runs the case in an uninterrupted process. ok is false when
// the run is not a plain refusal the requester can attribute (C11's subject).
func refusalReference(t c14T, c refusalCase) (cancel []byte, refState swap.StateType, n int, ok bool) {
	typ, payload, pol := c.build()
	w0, a0, m0 := refusalSetup(t, pol)
	defer w0.Close()
	t0 := w0.TraceLen()
	a0.Deliver(m0.Id, typ, payload)
	n = w0.TraceLen() - t0
	ref := cancelsTo(a0, m0)
	for _, s := range a0.SentBy() {
		if s.Type == mtSwapInAgreement || s.Type == mtSwapOutAgreement {
			return nil, "", n, false
		}
	}
	// "" = the refusal never created a record
	if r0 := recOf(a0, c.Id); r0 != nil {
		refState = r0.Current
	}
	if len(w0.Panics) > 0 || len(ref) != 1 || swapIdOfPayload(ref[0]) != c.Id || (refState != "" && !isTerminal(refState)) || n == 0 {
		return nil, refState, n, false
	}
	return ref[0], refState, n, true
}

// refusalRestart repeats the case with a crash at boundary call k of the
// delivery, restarts the node from its record and compares with the reference.
func refusalRestart(t c14T, col *stats.Collector, c refusalCase, ref []byte, refState swap.StateType, k, restarts int) {
	typ, payload, pol := c.build()
	w, a, m := refusalSetup(t, pol)
	defer w.Close()
	w.CrashAt = w.TraceLen() + k
	crashed, _ := a.Deliver(m.Id, typ, payload)
	var at sim.TraceEntry
	if tr := w.TraceCopy(); len(tr) > 0 {
		at = tr[len(tr)-1]
	}
	if !crashed {
		// cannot happen while the simulation is deterministic; never an alarm
		col.Case("crash-not-hit", false, nil, "crash-not-hit")
		return
	}
	for i := 0; i < restarts; i++ {
		if i > 0 {
			a.Kill()
		}
		if err := a.Boot(); err != nil {
			t.Fatalf("reboot: %v", err)
		}
		a.Recover()
	}
	if len(w.Panics) > 0 {
		t.Fatalf("VKEY[C14/restart-panic] restarted from the record at %s the node panics: %s", at, truncate(w.Panics[0], 1500))
	}
	got := cancelsTo(a, m)
	for i, cm := range got {
		if string(cm) != string(ref) {
			key := "C14/restart-cancel-differs"
			if swapIdOfPayload(cm) != c.Id {
				key = "C14/restart-cancel-without-id"
			}
			t.Fatalf("VKEY[%s] crash at %s, restart: cancel #%d is %s, the uninterrupted process sends %s\nrequest %s\n-- log --\n%s", key, at, i, cm, ref, payload, tail(sim.LogDump(), 12))
		}
	}
	rec := recOf(a, c.Id)
	st := "none"
	if rec != nil {
		st = string(rec.Current)
		if rec.Data.GetId() == nil || rec.Data.GetId().String() != c.Id {
			t.Fatalf("VKEY[C14/reload-differs:GetId] crash at %s, restart: the reloaded record answers GetId()=%v, the swap was created with %s", at, rec.Data.GetId(), c.Id)
		}
		if refState != "" && rec.Current != refState {
			t.Fatalf("VKEY[C14/restart-ends-elsewhere] crash at %s, restart: the refused request ends in %q, the uninterrupted process ends in %q", at, st, refState)
		}
	}
	// did the restarted process itself send something?
	resumed := false
	for _, s := range a.SentBy() {
		if s.To == m.Id && s.Type == mtCancel && s.Epoch > 1 {
			resumed = true
		}
	}
	cl := "restart-silent"
	if resumed {
		cl = "restart-resends-cancel"
	}
	col.Case(fmt.Sprintf("%+v/%d/%d", c, k, restarts), resumed || rec != nil,
		map[string]interface{}{"swap_out": c.Out, "liquid": c.Liquid, "refusal": c.Dev, "crash_at": at.String(), "record_after": st, "cancels": len(got)},
		"refusal:"+c.Dev, cl, "record:"+st, "crash:"+at.Call+"."+at.Phase+" "+at.Info)
}

// TestC14RestartContinuesRefusal is the history half of C14: a responder that is
// restarted from its record while it refuses a swap request must go on exactly
// as the original process would have. The reference is the same scenario without
// a crash; the restarted node may send the cancel once more (or not at all when
// nothing was persisted yet), but every cancel it sends must be byte-equal to
// the one the uninterrupted process sends - in particular it must carry the
// swap id, which for a request that was never applied to the swap data lives
// only in the state machine's SwapId.
func TestC14RestartContinuesRefusal(t *testing.T) {
	col := stats.Get("C14.restart")
	rapid.Check(t, func(t *rapid.T) {
		c := refusalCase{Out: rapid.Bool().Draw(t, "swapOut"), Liquid: rapid.Bool().Draw(t, "liquid"), Dev: rapid.SampledFrom(refusalDevs).Draw(t, "refusal"),
			Pick: rapid.IntRange(0, 3).Draw(t, "variant"), Id: freshId(t), Scid: rapid.SampledFrom([]string{"300x3x0", "300:3:0"}).Draw(t, "scid")}
		ref, refState, n, ok := refusalReference(t, c)
		if !ok {
			t.Skip("reference run is not a plain refusal")
		}
		k := rapid.IntRange(0, n-1).Draw(t, "crashOffset")
		restarts := rapid.IntRange(1, 2).Draw(t, "restarts")
		refusalRestart(t, col, c, ref, refState, k, restarts)
	})
}

// TestC14RestartEveryCrashPoint enumerates, without the library, every crash
// offset of every refusal kind for both request types and chains (the replay
// tier: it contains the shrunk failure that led to the fix of the reload of
// the creation id - both-chains swap-out request, crash after the record was
// written in State_SendCancel).
func TestC14RestartEveryCrashPoint(t *testing.T) {
	col := stats.Get("C14.restart-exhaustive")
	for _, out := range []bool{true, false} {
		for _, liquid := range []bool{false, true} {
			for _, dev := range refusalDevs {
				c := refusalCase{Out: out, Liquid: liquid, Dev: dev, Id: "00000000000000000000000000000000000000000000000000000000000000" + fmt.Sprintf("%02x", len(dev)), Scid: "300x3x0"}
				ref, refState, n, ok := refusalReference(t, c)
				if !ok {
					col.Case(fmt.Sprintf("%+v", c), false, nil, "not-a-plain-refusal")
					continue
				}
				for k := 0; k < n; k++ {
					refusalRestart(t, col, c, ref, refState, k, 1)
				}
			}
		}
	}
}

// TestC14HistoryRecordsReload: every record a node writes during generated histories - including the ones
// written after invalid or unexpected counterparty messages, faults and restarts - can be read back by a
// fresh store handle (GetData and ListAll succeed) and re-encodes to the bytes that were written.
func TestC14HistoryRecordsReload(t *testing.T) {
	col := stats.Get("C14.history-reload")
	rapid.Check(t, func(t *rapid.T) {
		h := newHist(t, HistCfg{MaxSteps: 22, Chains: []string{"btc", "lbtc"}, Restarts: true, Faults: true, Timeouts: true, PeerMoves: true, PayOutcomes: true, MultiSwap: true,
			Weights: map[string]int{"start": 2, "progress": 10, "deliver": 2, "settle": 1, "restart": 1, "mine": 2, "watcher": 1, "paid": 1, "timeout": 1, "payplan": 1, "resolve": 1, "fault": 1, "peermove": 2, "inject": 4}})
		defer h.Close()
		seen := map[string]int{}
		h.monitors = []func(*Hist){func(h *Hist) {
			for _, n := range h.nodes() {
				if n.DB == nil || len(n.Writes) == seen[n.Name] {
					continue
				}
				latest := map[string]*sim.StoreWrite{}
				for _, w := range n.Writes {
					latest[w.SwapId] = w
				}
				seen[n.Name] = len(n.Writes)
				st, err := swap.NewBboltStore(n.DB)
				if err != nil {
					t.Fatalf("harness: store: %v", err)
				}
				if _, err := st.ListAll(); err != nil {
					h.stop = col.Violation(h.T, "C14/records-unreadable:ListAll", "%s: a fresh store handle cannot list the swaps any more: %v\n%s", n.Name, err, h.dump())
					return
				}
				for id, w := range latest {
					rec, err := st.GetData(id)
					if err != nil {
						h.stop = col.Violation(h.T, "C14/records-unreadable:GetData", "%s: record of swap %s (written in %s) cannot be read back: %v\n%s", n.Name, id[:6], w.State, err, h.dump())
						return
					}
					b, _ := json.Marshal(rec)
					var a1, a2 interface{}
					_ = json.Unmarshal(b, &a1)
					_ = json.Unmarshal(w.JSON, &a2)
					if !reflect.DeepEqual(a1, a2) {
						h.stop = col.Violation(h.T, "C14/history-record-reload-differs", "%s: record of swap %s written in %s reloads differently\n written %s\n reloads %s\n%s", n.Name, id[:6], w.State, w.JSON, b, h.dump())
						return
					}
				}
			}
		}}
		acts := h.stdActions()
		acts["inject"] = h.actInject(func(*Hist, *injected) {})
		h.run(acts)
		nt := false
		for c := range h.Classes {
			if strings.HasPrefix(c, "inject-bad-content:bob") || strings.HasPrefix(c, "peermove") {
				nt = true
			}
		}
		col.Case(h.Key(), nt, h.Ops, h.classList()...)
	})
}
