package swapsim

import (
	"context"
	"encoding/hex"
	"encoding/json"
	"fmt"
	"os"
	"strings"
	"testing"

	"github.com/elementsproject/peerswap/messages"
	"github.com/elementsproject/peerswap/peersync"
	"github.com/elementsproject/peerswap/policy"
	"github.com/elementsproject/peerswap/swap"
	"pgregory.net/rapid"

	"verifharness/sim"
	"verifharness/stats"
)

type psLN struct {
	sent      []string
	connected []string
}

func (f *psLN) SendCustomMessage(_ context.Context, to peersync.PeerID, t messages.MessageType, _ []byte) error {
	f.sent = append(f.sent, fmt.Sprintf("%d->%s", t, to.String()))
	return nil
}
func (f *psLN) SubscribeCustomMessages(context.Context) (<-chan peersync.CustomMessage, error) {
	return make(chan peersync.CustomMessage), nil
}
func (f *psLN) Stop() error { return nil }
func (f *psLN) ListPeers(context.Context) ([]peersync.PeerID, error) {
	var out []peersync.PeerID
	for _, c := range f.connected {
		id, _ := peersync.NewPeerID(c)
		out = append(out, id)
	}
	return out, nil
}

func TestC26CsvRefundQuarantine(t *testing.T) {
	col := stats.Get("C26.quarantine")
	rapid.Check(t, func(t *rapid.T) {
		sim.CaseStart(t)
		w := sim.NewWorld()
		defer w.Close()
		a := w.AddNode("alice")
		m := w.AddNode("mallory")
		w.LN.AddChannel("300x3x0", a.Id, m.Id, 5_000_000_000, 5_000_000_000)
		if err := a.Boot(); err != nil {
			t.Fatal(err)
		}
		chain := rapid.SampledFrom([]string{"btc", "lbtc"}).Draw(t, "chain")
		makerVia := rapid.SampledFrom([]string{"swap-out-request", "local-swap-in"}).Draw(t, "makerVia")
		ending := rapid.SampledFrom([]string{"csv-silent", "csv-after-cancel", "csv-after-bad-coop", "coop", "preimage", "cancel-before-opening"}).Draw(t, "ending")
		takerKey := sim.KeyFromName("mallory-taker-key")
		takerPub := hex.EncodeToString(takerKey.PubKey().SerializeCompressed())
		asset, network := "", "regtest"
		if chain == "lbtc" {
			asset, network = sim.LbtcAsset, ""
		}
		var id string
		var ops []string
		if makerVia == "swap-out-request" {
			id = freshId(t)
			req, _ := json.Marshal(&swap.SwapOutRequestMessage{ProtocolVersion: 7, SwapId: mustSwapId(id), Asset: asset, Network: network, Scid: "300x3x0", Amount: 1_000_000, Pubkey: takerPub, PremiumLimit: 1 << 40})
			a.Deliver(m.Id, mtSwapOutRequest, req)
			if ending == "cancel-before-opening" {
				a.Deliver(m.Id, mtCancel, buildMessage(t, mtCancel, id, "", chain, ""))
			} else {
				// pay the fee invoice
				for _, pr := range a.InvoicesMade {
					if inv := w.LN.Invoices[pr]; inv != nil && inv.Type == int(swap.INVOICE_FEE) {
						inv.Paid = true
						a.DeliverPayment(sim.Notif{Node: a.Name, SwapId: id, Type: swap.INVOICE_FEE, Payreq: pr})
					}
				}
			}
		} else {
			var sm *swap.SwapStateMachine
			var err error
			w.Step(a, func() { sm, err = a.Svc.SwapIn(m.Id, chain, "300x3x0", a.Id, 1_000_000, 100_000) })
			if err != nil {
				t.Fatalf("SwapIn: %v", err)
			}
			id = sm.SwapId.String()
			if ending == "cancel-before-opening" {
				a.Deliver(m.Id, mtCancel, buildMessage(t, mtCancel, id, "", chain, ""))
			} else {
				agr, _ := json.Marshal(&swap.SwapInAgreementMessage{ProtocolVersion: 7, SwapId: mustSwapId(id), Pubkey: takerPub, Premium: 0})
				a.Deliver(m.Id, mtSwapInAgreement, agr)
			}
		}
		ops = append(ops, makerVia, ending)
		opened := len(a.Openings) == 1
		if ending != "cancel-before-opening" && !opened {
			t.Fatalf("harness: maker did not broadcast an opening transaction\n%s", tail(sim.LogDump(), 15))
		}
		csvBlocks := csvFor(chain)
		mineCsv := func() {
			w.Mine(chain, csvBlocks)
			for i := 0; i < 3; i++ {
				for _, ev := range a.DueWatcherEvents() {
					a.DeliverWatcherEvent(ev)
				}
			}
		}
		switch ending {
		case "csv-silent":
			mineCsv()
		case "csv-after-cancel":
			a.Deliver(m.Id, mtCancel, buildMessage(t, mtCancel, id, "", chain, ""))
			mineCsv()
		case "csv-after-bad-coop":
			a.Deliver(m.Id, mtCoopClose, buildMessage(t, mtCoopClose, id, "", chain, "")) // wrong key
			mineCsv()
		case "coop":
			cc, _ := json.Marshal(&swap.CoopCloseMessage{SwapId: mustSwapId(id), Message: "coop", Privkey: hex.EncodeToString(takerKey.Serialize())})
			a.Deliver(m.Id, mtCoopClose, cc)
		case "preimage":
			for _, pr := range a.InvoicesMade {
				if inv := w.LN.Invoices[pr]; inv != nil && inv.Type == int(swap.INVOICE_CLAIM) {
					inv.Paid = true
					a.DeliverPayment(sim.Notif{Node: a.Name, SwapId: id, Type: swap.INVOICE_CLAIM, Payreq: pr})
				}
			}
		}
		rec := recOf(a, id)
		final := "none"
		if rec != nil {
			final = string(rec.Current)
		}
		csvEnding := strings.HasPrefix(ending, "csv")
		if csvEnding && final != "State_ClaimedCsv" {
			t.Fatalf("harness: expected a csv refund, swap is in %s\n%s", final, tail(sim.LogDump(), 15))
		}
		if !csvEnding && final == "State_ClaimedCsv" {
			t.Fatalf("harness: unexpected csv refund for ending %s", ending)
		}
		// --- the policy file lists the peer iff the swap ended in a csv refund ---
		fileBytes, _ := os.ReadFile(a.PolicyPath)
		fresh, err := policy.CreateFromFile(a.PolicyPath)
		if err != nil {
			t.Fatalf("VKEY[C26/policy-file-broken] policy file no longer loads: %v\n%s", err, fileBytes)
		}
		if fresh.IsPeerSuspicious(m.Id) != csvEnding || a.Policy.IsPeerSuspicious(m.Id) != csvEnding {
			t.Fatalf("VKEY[C26/suspicious-list:%s] ending %s: suspicious in file=%v in memory=%v, want %v\nfile:\n%s", ending, ending, fresh.IsPeerSuspicious(m.Id), a.Policy.IsPeerSuspicious(m.Id), csvEnding, fileBytes)
		}
		if !csvEnding {
			col.Case(strings.Join(ops, ","), false, ops, "ending:"+ending)
			return
		}
		// --- quarantine, also across a restart ---
		for round := 0; round < 2; round++ {
			if round == 1 {
				a.Kill()
				if err := a.Boot(); err != nil {
					t.Fatal(err)
				}
				a.Recover()
				ops = append(ops, "restart")
			}
			for _, typ := range []int{mtSwapInRequest, mtSwapOutRequest} {
				rid := freshId(t)
				sentBefore := len(a.SentBy())
				a.Deliver(m.Id, typ, buildMessage(t, typ, rid, "300x3x0", chain, takerPub))
				agreed, cancelled := false, false
				for _, sm := range a.SentBy()[sentBefore:] {
					if swapIdOfPayload(sm.Payload) != rid {
						continue
					}
					if sm.Type == mtSwapInAgreement || sm.Type == mtSwapOutAgreement {
						agreed = true
					}
					if sm.Type == mtCancel && sm.To == m.Id {
						cancelled = true
					}
				}
				if agreed || !cancelled {
					t.Fatalf("VKEY[C26/request-from-quarantined-peer] request type %d from the quarantined peer: agreement=%v cancel=%v (round %d)", typ, agreed, cancelled, round)
				}
			}
			for _, typ := range []string{"out", "in"} {
				sentBefore := len(a.SentBy())
				var err error
				w.Step(a, func() {
					if typ == "out" {
						_, err = a.Svc.SwapOut(m.Id, chain, "300x3x0", a.Id, 1_000_000, 100_000)
					} else {
						_, err = a.Svc.SwapIn(m.Id, chain, "300x3x0", a.Id, 1_000_000, 100_000)
					}
				})
				if err == nil || len(a.SentBy()) != sentBefore {
					t.Fatalf("VKEY[C26/local-initiation-to-quarantined-peer] swap-%s towards the quarantined peer: err=%v, messages sent=%d (round %d)", typ, err, len(a.SentBy())-sentBefore, round)
				}
			}
			// peer-sync neither answers the peer nor stores its capability nor polls it
			ln := &psLN{connected: []string{m.Id}}
			storePath := fmt.Sprintf("%s/peersync-%d.db", w.Dir, round)
			st, err := peersync.NewStore(storePath)
			if err != nil {
				t.Fatal(err)
			}
			me, _ := peersync.NewPeerID(a.Id)
			ps := peersync.NewPeerSync(me, st, ln, a.Policy, nil, a.Premium)
			pid, _ := peersync.NewPeerID(m.Id)
			// whatever the quarantined peer sends - also payloads this node cannot parse
			for k, nmsg := 0, rapid.IntRange(1, 4).Draw(t, "psMessages"); k < nmsg; k++ {
				payload := []byte(rapid.SampledFrom([]string{
					`{"version":7,"assets":["BTC"],"peer_allowed":true}`,
					`{"version":7,"assets":["BTC"],"peer_allowed":true}`,
					`{"version":9,"assets":["BTC","DOGE"],"peer_allowed":true}`,
					`{"version":7,"assets":["BTC"],"btc_swap_in_premium_rate_ppm":99000000}`,
					`{"version":"7"}`, `{`, ``, `null`, `[]`, `{"version":7,"assets":[1]}`,
				}).Draw(t, "psPayload"))
				mt := rapid.SampledFrom([]messages.MessageType{messages.MESSAGETYPE_REQUEST_POLL, messages.MESSAGETYPE_REQUEST_POLL, messages.MESSAGETYPE_POLL}).Draw(t, "psType")
				ps.VerifProcessMessage(context.Background(), peersync.CustomMessage{From: pid, Type: mt, Payload: payload})
				ops = append(ops, fmt.Sprintf("ps(%d,%s)", mt, payload))
			}
			ps.ForcePollAllPeers(context.Background())
			_ = ps.RequestPoll(context.Background(), pid)
			_, gerr := st.GetPeerState(pid)
			st.Close()
			if len(ln.sent) != 0 {
				t.Fatalf("VKEY[C26/peersync-talks-to-quarantined-peer] peer-sync sent %v", ln.sent)
			}
			if gerr == nil {
				t.Fatalf("VKEY[C26/peersync-stores-quarantined-peer] peer-sync stored the capability of the quarantined peer")
			}
		}
		col.Case(strings.Join(ops, ",")+chain, true, map[string]interface{}{"chain": chain, "maker_via": makerVia, "ending": ending}, "ending:"+ending)
	})
}
