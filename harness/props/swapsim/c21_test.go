package swapsim

import (
	"bytes"
	"encoding/hex"
	"encoding/json"
	"fmt"
	"reflect"
	"sort"
	"strconv"
	"strings"
	"testing"

	"github.com/elementsproject/peerswap/messages"
	"github.com/elementsproject/peerswap/swap"
	"pgregory.net/rapid"

	"verifharness/pbt"
	"verifharness/sim"
	"verifharness/stats"
)

// protocolTable is the message numbering from the protocol document.
var protocolTable = map[string]int{
	"swap_in_request":        42069,
	"swap_out_request":       42071,
	"swap_in_agreement":      42073,
	"swap_out_agreement":     42075,
	"opening_tx_broadcasted": 42077,
	"cancel":                 42079,
	"coop_close":             42081,
	"poll":                   42083,
	"request_poll":           42085,
}

func genSwapId(t *rapid.T) *swap.SwapId {
	var id swap.SwapId
	copy(id[:], rapid.SliceOfN(rapid.Byte(), 32, 32).Draw(t, "id"))
	return &id
}

func genStr(t *rapid.T, label string) string {
	return rapid.OneOf(
		rapid.SampledFrom([]string{"", "regtest", "mainnet", "<>&  ", "\"quoted\"\\", "\x00\x01", strings.Repeat("a", 3000)}),
		rapid.String(),
		rapid.StringMatching(`[0-9a-f]{0,70}`),
	).Draw(t, label)
}

func genI64(t *rapid.T, label string) int64 {
	return rapid.OneOf(rapid.Int64(), rapid.SampledFrom([]int64{0, 1, -1, 1<<63 - 1, -1 << 63, 1 << 53, 1<<53 + 1})).Draw(t, label)
}

func genU64(t *rapid.T, label string) uint64 {
	return rapid.OneOf(rapid.Uint64(), rapid.SampledFrom([]uint64{0, 1, 1<<64 - 1, 1 << 53, 1<<53 + 1, 1 << 63})).Draw(t, label)
}

func TestC21Marshal(t *testing.T) { propC21Marshal(t) }

// FuzzC21Marshal drives the same property body with Go's coverage-guided fuzzer (thorough tier).
func FuzzC21Marshal(f *testing.F) { propC21Marshal(f) }

func propC21Marshal(t testing.TB) {
	col := stats.Get("C21.marshal")
	pbt.Run(t, func(t *rapid.T) {
		kind := rapid.SampledFrom([]string{"swap_in_request", "swap_out_request", "swap_in_agreement", "swap_out_agreement", "opening_tx_broadcasted", "cancel", "coop_close"}).Draw(t, "kind")
		var msg swap.PeerMessage
		var fresh func() interface{}
		switch kind {
		case "swap_in_request":
			msg = &swap.SwapInRequestMessage{ProtocolVersion: rapid.Uint8().Draw(t, "v"), SwapId: genSwapId(t), Network: genStr(t, "net"), Asset: genStr(t, "asset"), Scid: genStr(t, "scid"), Amount: genU64(t, "amt"), Pubkey: genStr(t, "pk"), PremiumLimit: genI64(t, "pl")}
			fresh = func() interface{} { return &swap.SwapInRequestMessage{} }
		case "swap_out_request":
			msg = &swap.SwapOutRequestMessage{ProtocolVersion: rapid.Uint8().Draw(t, "v"), SwapId: genSwapId(t), Network: genStr(t, "net"), Asset: genStr(t, "asset"), Scid: genStr(t, "scid"), Amount: genU64(t, "amt"), Pubkey: genStr(t, "pk"), PremiumLimit: genI64(t, "pl")}
			fresh = func() interface{} { return &swap.SwapOutRequestMessage{} }
		case "swap_in_agreement":
			msg = &swap.SwapInAgreementMessage{ProtocolVersion: rapid.Uint8().Draw(t, "v"), SwapId: genSwapId(t), Pubkey: genStr(t, "pk"), Premium: genI64(t, "p")}
			fresh = func() interface{} { return &swap.SwapInAgreementMessage{} }
		case "swap_out_agreement":
			msg = &swap.SwapOutAgreementMessage{ProtocolVersion: rapid.Uint8().Draw(t, "v"), SwapId: genSwapId(t), Pubkey: genStr(t, "pk"), Payreq: genStr(t, "payreq"), Premium: genI64(t, "p")}
			fresh = func() interface{} { return &swap.SwapOutAgreementMessage{} }
		case "opening_tx_broadcasted":
			msg = &swap.OpeningTxBroadcastedMessage{SwapId: genSwapId(t), Payreq: genStr(t, "payreq"), TxId: genStr(t, "txid"), ScriptOut: rapid.Uint32().Draw(t, "vout"), BlindingKey: genStr(t, "bk")}
			fresh = func() interface{} { return &swap.OpeningTxBroadcastedMessage{} }
		case "cancel":
			msg = &swap.CancelMessage{SwapId: genSwapId(t), Message: genStr(t, "m")}
			fresh = func() interface{} { return &swap.CancelMessage{} }
		case "coop_close":
			msg = &swap.CoopCloseMessage{SwapId: genSwapId(t), Message: genStr(t, "m"), Privkey: genStr(t, "k")}
			fresh = func() interface{} { return &swap.CoopCloseMessage{} }
		}
		b, typ, err := swap.MarshalPeerswapMessage(msg)
		if err != nil {
			t.Fatalf("VKEY[C21/marshal-error] %s: %v", kind, err)
		}
		if typ != protocolTable[kind] {
			t.Fatalf("VKEY[C21/type-number] %s sent as %d, protocol says %d", kind, typ, protocolTable[kind])
		}
		if typ%2 == 0 || typ < 42069 || typ > 42085 {
			t.Fatalf("VKEY[C21/type-number] %d not an odd number in range", typ)
		}
		// the returned payload belongs to the caller (swaps keep it for retransmission): marshalling further
		// messages - of any swap - must not change it
		keep := append([]byte{}, b...)
		for i, n := 0, rapid.IntRange(0, 3).Draw(t, "laterMessages"); i < n; i++ {
			other := &swap.CoopCloseMessage{SwapId: genSwapId(t), Message: genStr(t, "om"), Privkey: strings.Repeat("5e", 32)}
			if rapid.Bool().Draw(t, "otherIsCancel") {
				_, _, _ = swap.MarshalPeerswapMessage(&swap.CancelMessage{SwapId: other.SwapId, Message: other.Message})
			} else {
				_, _, _ = swap.MarshalPeerswapMessage(other)
			}
		}
		if !bytes.Equal(keep, b) {
			t.Fatalf("VKEY[C21/payload-changed-after-return] the payload returned for a %s message changed when other messages were marshalled:\n was %s\n now %s", kind, truncate(string(keep), 300), truncate(string(b), 300))
		}
		out := fresh()
		if err := json.Unmarshal(b, out); err != nil {
			t.Fatalf("VKEY[C21/roundtrip] %s does not decode: %v (%s)", kind, err, b)
		}
		if !reflect.DeepEqual(out, msg) {
			t.Fatalf("VKEY[C21/roundtrip] %s decodes to different content:\n sent %+v\n got  %+v\n json %s", kind, msg, out, b)
		}
		// hex type string round trip as used on the wire
		hs := messages.MessageTypeToHexString(messages.MessageType(typ))
		back, err := messages.PeerswapCustomMessageType(hs)
		if err != nil || int(back) != typ {
			t.Fatalf("VKEY[C21/hex-type] %d -> %q -> %d (%v)", typ, hs, back, err)
		}
		if v, _ := strconv.ParseInt(hs, 16, 64); int(v) != typ {
			t.Fatalf("VKEY[C21/hex-type] %q is not hex of %d", hs, typ)
		}
		nt := bytes.ContainsAny(b, "\\") || len(b) > 400 || strings.Contains(string(b), "922337203685477580")
		col.Case(kind+string(b), nt, map[string]interface{}{"kind": kind, "json": truncate(string(b), 300)}, "kind:"+kind)
	})
	// the two peer-sync message numbers
	for name, want := range map[string]messages.MessageType{"poll": messages.MESSAGETYPE_POLL, "request_poll": messages.MESSAGETYPE_REQUEST_POLL} {
		if int(want) != protocolTable[name] {
			t.Fatalf("VKEY[C21/type-number] %s is %d, protocol says %d", name, want, protocolTable[name])
		}
	}
}

func truncate(s string, n int) string {
	if len(s) > n {
		return s[:n] + "..."
	}
	return s
}

// junkPayload derives a hostile payload, optionally from a valid message.
func junkPayload(t *rapid.T, valid []byte) []byte {
	mode := rapid.SampledFrom([]string{"null", "valid", "truncate", "empty", "wrongtypes", "array", "string", "number", "big", "bigvalid", "bytes", "nested", "dupkeys", "nullfields", "true", "trailing", "trailing", "leading", "odd-id", "odd-id"}).Draw(t, "junkmode")
	switch mode {
	case "null":
		return []byte("null")
	case "valid":
		return valid
	case "truncate":
		if len(valid) == 0 {
			return valid
		}
		return valid[:rapid.IntRange(0, len(valid)-1).Draw(t, "cut")]
	case "empty":
		return []byte{}
	case "wrongtypes":
		return []byte(`{"swap_id":123,"protocol_version":"7","amount":"x","pubkey":[],"scid":{},"premium":1.5,"tx_id":null,"script_out":-1}`)
	case "array":
		return []byte(`[1,2,3]`)
	case "string":
		return []byte(`"hello"`)
	case "number":
		return []byte(`42`)
	case "big":
		return bytes.Repeat([]byte("A"), 100*1024+1+rapid.IntRange(0, 5000).Draw(t, "extra"))
	case "bigvalid":
		// a well-formed cancel that exceeds 100 KiB
		var x map[string]interface{}
		_ = json.Unmarshal(valid, &x)
		if x == nil {
			x = map[string]interface{}{}
		}
		x["message"] = strings.Repeat("m", 100*1024+10)
		b, _ := json.Marshal(x)
		return b
	case "bytes":
		return rapid.SliceOfN(rapid.Byte(), 0, 64).Draw(t, "rawbytes")
	case "nested":
		return []byte(strings.Repeat("[", 3000) + strings.Repeat("]", 3000))
	case "dupkeys":
		return []byte(`{"swap_id":"00","swap_id":null,"swap_id":"zz"}`)
	case "trailing":
		// a complete, valid message followed by more bytes is not a JSON document
		suffix := rapid.SampledFrom([]string{"}", "\x00", "]", " x", "{\"swap_id\"", "{}", "null", ",", "\n{\"a\":1}"}).Draw(t, "suffix")
		if suffix == "{}" {
			return append(append([]byte{}, valid...), valid...) // a second complete object
		}
		return append(append([]byte{}, valid...), suffix...)
	case "odd-id":
		// an otherwise valid message whose swap_id is not 32 bytes of hex
		var x map[string]interface{}
		if json.Unmarshal(valid, &x) != nil {
			return valid
		}
		id, _ := x["swap_id"].(string)
		x["swap_id"] = rapid.SampledFrom([]string{"", "00", "abcd", id[:len(id)/2], id[:len(id)-2], id + "00", strings.ToUpper(id), "0x" + id[2:], id[:len(id)-1] + "g"}).Draw(t, "oddId")
		b, _ := json.Marshal(x)
		return b
	case "leading":
		return append([]byte(rapid.SampledFrom([]string{"x", "\x00", "}", "[", "1 "}).Draw(t, "prefix")), valid...)
	case "nullfields":
		var x map[string]interface{}
		_ = json.Unmarshal(valid, &x)
		for k := range x {
			if rapid.Bool().Draw(t, "null-"+k) {
				x[k] = nil
			}
		}
		b, _ := json.Marshal(x)
		return b
	}
	return []byte("true")
}

func junkType(t *rapid.T) string {
	return rapid.OneOf(
		rapid.SampledFrom([]string{"a455", "a457", "a459", "a45b", "a45d", "a45f", "a461", "a463", "a465", // the nine peerswap types
			"a454", "a456", "a466", "a467", "0000", "ffff", "", "zzzz", "-a455", "0xa455", "A455", "a4550", "1a455", " a455", "a455 ", "7fffffffffffffffff", "+a455"}),
		rapid.StringMatching(`[0-9a-f]{4}`),
		rapid.StringN(0, 6, 12),
	).Draw(t, "typestr")
}

func TestC21Junk(t *testing.T) { propC21Junk(t) }

// FuzzC21Junk drives the same property body with Go's coverage-guided fuzzer (thorough tier).
func FuzzC21Junk(f *testing.F) { propC21Junk(f) }

func propC21Junk(t testing.TB) {
	col := stats.Get("C21.junk")
	pbt.Run(t, func(t *rapid.T) {
		h := newHist(t, HistCfg{MaxSteps: 8, Chains: []string{"btc", "lbtc"}, MultiSwap: true,
			Weights: map[string]int{"start": 3, "deliver": 4, "settle": 1, "mine": 1}})
		defer h.Close()
		h.run(h.stdActions())
		n := rapid.IntRange(1, 6).Draw(t, "junkcount")
		nt := false
		for i := 0; i < n && !h.stop; i++ {
			target := h.A
			recs := target.Swaps()
			id := hex.EncodeToString(rapid.SliceOfN(rapid.Byte(), 32, 32).Draw(t, "jid"))
			if len(recs) > 0 && rapid.Bool().Draw(t, "useLive") {
				id = recs[rapid.IntRange(0, len(recs)-1).Draw(t, "recidx")].SwapId.String()
			}
			typ := rapid.SampledFrom(allTypes).Draw(t, "basetype")
			valid := buildMessage(t, typ, id, "300x3x0", "btc", hex.EncodeToString(sim.KeyFromName("junk").PubKey().SerializeCompressed()))
			payload := junkPayload(t, valid)
			ts := junkType(t)
			before := snapshotRecords(target)
			activeBefore := target.Svc.VerifActiveSwapIds()
			sort.Strings(activeBefore)
			sentBefore := len(h.W.Sent)
			_, err := target.DeliverRaw(h.Mallory.Id, ts, payload)
			h.opf("junk(type=%q,len=%d,%s) err=%v", ts, len(payload), truncate(string(payload), 60), err != nil)
			if len(h.W.Panics) > 0 {
				h.stop = col.Violation(h.T, "C21/panic-on-received-message", "panic while handling type %q payload %q: %s", ts, truncate(string(payload), 200), truncate(h.W.Panics[0], 1500))
				break
			}
			// mallory is nobody's counterparty here: no existing swap may change
			after := snapshotRecords(target)
			for sid, b := range before {
				if after[sid] != b {
					h.stop = col.Violation(h.T, "C21/junk-changed-swap", "type %q payload %q changed swap %s\n%s", ts, truncate(string(payload), 200), sid[:6], h.dump())
					break
				}
			}
			activeAfter := target.Svc.VerifActiveSwapIds()
			sort.Strings(activeAfter)
			for _, a := range activeBefore {
				if !containsS(activeAfter, a) {
					h.stop = col.Violation(h.T, "C21/junk-changed-swap", "type %q payload %q removed active swap %s", ts, truncate(string(payload), 200), a[:6])
				}
			}
			// anything beyond the 100 KiB limit or with a non-peerswap type must be ignored completely
			mt, terr := strconv.ParseInt(ts, 16, 64)
			isPS := terr == nil && mt >= 42069 && mt <= 42081 && mt%2 == 1
			// a payload that is not a JSON object carrying a 32-byte hex swap_id is malformed
			var probe struct {
				SwapId *string `json:"swap_id"`
			}
			malformed := json.Unmarshal(payload, &probe) != nil || probe.SwapId == nil || len(*probe.SwapId) != 64
			if !malformed {
				if _, herr := hex.DecodeString(*probe.SwapId); herr != nil {
					malformed = true
				}
			}
			if malformed {
				h.class("junk:malformed")
			}
			if !isPS || len(payload) > 100*1024 || malformed {
				if len(after) != len(before) || len(h.W.Sent) != sentBefore || len(activeAfter) != len(activeBefore) {
					h.stop = col.Violation(h.T, "C21/ignored-message-had-effect", "type %q len %d had an effect (records %d->%d, sent +%d)", ts, len(payload), len(before), len(after), len(h.W.Sent)-sentBefore)
				}
			} else {
				nt = true
			}
		}
		col.Case(h.Key(), nt, h.Ops[max(0, len(h.Ops)-6):], h.classList()...)
	})
}

func containsS(l []string, s string) bool {
	for _, x := range l {
		if x == s {
			return true
		}
	}
	return false
}

var _ = fmt.Sprintf
