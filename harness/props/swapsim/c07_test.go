package swapsim

import (
	"fmt"
	"sort"
	"strings"
	"testing"

	"github.com/elementsproject/peerswap/swap"
	"pgregory.net/rapid"

	"verifharness/sim"
	"verifharness/stats"
)

// recForOpening finds the persisted swap whose key pair is locked in the opening output.
func recForOpening(n *sim.Node, o *sim.Opening) *swap.SwapStateMachine {
	for _, s := range n.Swaps() {
		if s.Data == nil {
			continue
		}
		if s.Data.GetMakerPubkey() == o.Params.MakerPubkey && s.Data.GetTakerPubkey() == o.Params.TakerPubkey {
			return s
		}
	}
	return nil
}

// causeOf classifies what happened right after the broadcast of o.
func causeOf(h *Hist, n *sim.Node, o *sim.Opening) string {
	tr := h.W.TraceCopy()
	// did the process that broadcast o die before its next store write?
	wroteAfter := false
	for _, e := range tr {
		if e.Node == n.Name && e.Epoch == o.Epoch && e.Idx > o.TraceIdx && e.Call == "store.UpdateData" && e.Phase == "exit" {
			wroteAfter = true
			break
		}
	}
	if !wroteAfter && n.Proc.Epoch != o.Epoch {
		return "crash-after-broadcast"
	}
	for _, f := range n.FaultsFired {
		// "call:kind@traceIdx"
		var at int
		parts := strings.Split(f, "@")
		fmt.Sscanf(parts[len(parts)-1], "%d", &at)
		if at > o.TraceIdx {
			return "fault:" + strings.Split(f, ":")[0]
		}
	}
	return "other"
}

func outpointSpentByNode(h *Hist, n *sim.Node, o *sim.Opening) bool {
	c := h.W.Chains[o.Chain]
	sp := c.Spender(o.TxID, o.Vout)
	if sp == "" {
		return false
	}
	return c.Txs[sp].Owner == n.Name
}

func invoicePaid(h *Hist, rec *swap.SwapStateMachine) bool {
	if rec == nil || rec.Data == nil || rec.Data.OpeningTxBroadcasted == nil {
		return false
	}
	inv := h.W.LN.Invoices[rec.Data.OpeningTxBroadcasted.Payreq]
	return inv != nil && inv.Paid
}

// monitorC07: every opening transaction the node's wallet broadcast stays recorded and is never abandoned.
func monitorC07(col *stats.Collector) func(h *Hist) {
	return func(h *Hist) {
		for _, n := range h.nodes() {
			for _, o := range n.Openings {
				h.class("opening-broadcast")
				rec := recForOpening(n, o)
				// has any write of that swap been committed after the broadcast?
				written := false
				if rec != nil {
					for _, w := range n.Writes {
						if w.SwapId == rec.SwapId.String() && w.TraceIdx > o.TraceIdx {
							written = true
						}
					}
				}
				if rec == nil {
					h.stop = col.Violation(h.T, "C07/"+causeOf(h, n, o)+"/no-record", "%s broadcast opening tx %s but holds no swap record for it\n%s", n.Name, o.TxID[:8], h.dump())
					return
				}
				if !written {
					continue // still inside the window before the first write; judged after the next write
				}
				ob := rec.Data.OpeningTxBroadcasted
				if ob == nil || ob.TxId != o.TxID {
					h.stop = col.Violation(h.T, "C07/"+causeOf(h, n, o)+"/opening-not-recorded", "%s broadcast opening tx %s for swap %s, but the record written afterwards (state %s) does not name it\n%s\n-- log --\n%s",
						n.Name, o.TxID[:8], rec.SwapId.String()[:6], rec.Current, h.dump(), tail(sim.LogDump(), 20))
					return
				}
				if ob.ScriptOut != o.Vout {
					h.stop = col.Violation(h.T, "C07/wrong-vout-recorded", "%s recorded vout %d for opening tx %s, the swap output is %d\n%s", n.Name, ob.ScriptOut, o.TxID[:8], o.Vout, h.dump())
					return
				}
				if isTerminal(rec.Current) && !invoicePaid(h, rec) && !outpointSpentByNode(h, n, o) {
					h.stop = col.Violation(h.T, "C07/"+causeOf(h, n, o)+"/abandoned:"+strings.TrimPrefix(string(rec.Current), "State_"),
						"%s finished swap %s in %s although its opening output %s:%d is unspent and the invoice unpaid\n%s", n.Name, rec.SwapId.String()[:6], rec.Current, o.TxID[:8], o.Vout, h.dump())
					return
				}
			}
		}
	}
}

func TestC07MakerFundsNeverAbandoned(t *testing.T) {
	col := stats.Get("C07.hist")
	rapid.Check(t, func(t *rapid.T) {
		h := newHist(t, HistCfg{MaxSteps: 28, Chains: []string{"btc", "lbtc"}, Restarts: true, Crashes: true, Faults: true, PayOutcomes: true, Timeouts: true, Drops: true, Adversary: true, Eager: true,
			Weights: map[string]int{"start": 0, "progress": 12, "deliver": 2, "settle": 1, "restart": 2, "mine": 2, "watcher": 1, "paid": 1, "timeout": 1, "payplan": 2, "resolve": 1, "fault": 4, "armcrash": 3, "peer": 3, "makerdown": 2}})
		defer h.Close()
		h.A.ChangeBefore = rapid.IntRange(0, 2).Draw(t, "changeBeforeA")
		h.B.ChangeBefore = rapid.IntRange(0, 2).Draw(t, "changeBeforeB")
		h.monitors = []func(*Hist){monitorC07(col)}
		acts := h.stdActions()
		acts["fault"] = func() {
			n := h.nodes()[rapid.IntRange(0, 1).Draw(t, "fnode")]
			call := rapid.SampledFrom([]string{"watcher.GetBlockHeight", "watcher.GetBlockHeight", "wallet.SetLabel", "wallet.CreateOpeningTransaction", "store.UpdateData", "msg.Send", "ln.GetPayreq",
				"wallet.CreateCsvSpendingTransaction", "wallet.CreateCoopSpendingTransaction"}).Draw(t, "fcall")
			kind := rapid.SampledFrom([]sim.FaultKind{sim.FaultBefore, sim.FaultAfter}).Draw(t, "fkind")
			skip := rapid.IntRange(0, 2).Draw(t, "fskip")
			cnt := rapid.SampledFrom([]int{1, 1, 3, 30}).Draw(t, "fcount")
			var q []sim.FaultKind
			for i := 0; i < skip; i++ {
				q = append(q, sim.FaultNone)
			}
			for i := 0; i < cnt; i++ {
				q = append(q, kind)
			}
			n.Faults[call] = q
			h.opf("fault(%s,%s,kind=%d,skip=%d,n=%d)", n.Name, call, kind, skip, cnt)
			h.class("fault:" + call)
		}
		// hostile taker behaviour towards a maker that has announced its opening transaction
		acts["peer"] = func() {
			for _, n := range h.nodes() {
				if !h.alive(n) {
					continue
				}
				for _, s := range n.Swaps() {
					if isTaker(s) || isTerminal(s.Current) || s.Data.OpeningTxBroadcasted == nil {
						continue
					}
					id := s.SwapId.String()
					what := rapid.SampledFrom([]string{"cancel", "coop-badkey", "coop-shortkey", "invalid-opening"}).Draw(t, "peerAct")
					var payload []byte
					typ := mtCancel
					switch what {
					case "cancel":
						payload = buildMessage(t, mtCancel, id, "", "btc", "")
					case "coop-badkey":
						typ = mtCoopClose
						payload = buildMessage(t, mtCoopClose, id, "", "btc", "")
					case "coop-shortkey":
						typ = mtCoopClose
						payload = []byte(fmt.Sprintf(`{"swap_id":"%s","message":"x","privkey":"abcd"}`, id))
					case "invalid-opening":
						typ = mtOpeningTx
						payload = []byte(fmt.Sprintf(`{"swap_id":"%s","payreq":"x","tx_id":"zz","script_out":0,"blinding_key":""}`, id))
					}
					crashed, _ := n.Deliver(s.Data.PeerNodeId, typ, payload)
					h.opf("peer(%s,%s,%s) crashed=%v", n.Name, what, id[:6], crashed)
					h.class("peer:" + what)
					h.handleCrash(n, crashed)
					return
				}
			}
		}
		h.run(acts)
		finalC07(h, col)
		nt := h.Classes["opening-broadcast"]
		col.Case(h.Key(), nt, h.Ops, h.classList()...)
	})
}

// finalC07: closure (CSV matures while the invoice stays unpaid, services healthy, restarts), then every
// opening output the node broadcast must be spent by the node unless the claim invoice was paid.
func finalC07(h *Hist, col *stats.Collector) {
	if !h.stop {
		finalC07NoRestart(h, col)
	}
	if !h.stop {
		closureSilentPeer(h, 4)
		h.afterStep()
	}
	if !h.stop {
		for _, n := range h.nodes() {
			for _, o := range n.Openings {
				rec := recForOpening(n, o)
				if invoicePaid(h, rec) || outpointSpentByNode(h, n, o) {
					continue
				}
				st := "?"
				if rec != nil {
					st = string(rec.Current)
				}
				h.stop = col.Violation(h.T, "C07/"+causeOf(h, n, o)+"/not-refunded-after-csv:"+strings.TrimPrefix(st, "State_"),
					"after the csv matured (invoice unpaid, services healthy, restarts) opening output %s:%d of %s is still unspent; swap state %s\n%s", o.TxID[:8], o.Vout, n.Name, st, h.dump())
				break
			}
		}
	}
}

// finalC07NoRestart is the part of the property that needs no restart: a live maker whose opening output
// has not matured yet, whose services are healthy from now on and whose peer stays silent broadcasts the
// refund when the csv matures -- the running process does it, not the next one. (A restart re-registers
// every watch and so repairs a lost or wrongly parameterised csv registration.)
func finalC07NoRestart(h *Hist, col *stats.Collector) {
	h.W.CrashAt = -1
	for _, m := range h.W.PendingMsgs() {
		h.W.Drop(m)
	}
	type due struct {
		n *sim.Node
		o *sim.Opening
	}
	var demand []due
	for _, n := range h.nodes() {
		if !h.alive(n) {
			continue
		}
		n.Faults = map[string][]sim.FaultKind{}
		n.PayPlan = map[string][]sim.PayOutcome{"claim": {sim.PayFailClean, sim.PayFailClean, sim.PayFailClean}, "fee": {sim.PayFailClean}}
		n.MineOnHeightCall = map[string][]uint32{}
		storeFault := false
		for _, f := range n.FaultsFired {
			if strings.HasPrefix(f, "store.UpdateData:") {
				storeFault = true
			}
		}
		for _, o := range n.Openings {
			rec := recForOpening(n, o)
			c := h.W.Chains[o.Chain]
			if rec == nil || isTerminal(rec.Current) || invoicePaid(h, rec) || c.Spender(o.TxID, o.Vout) != "" {
				continue
			}
			if o.Epoch != n.Proc.Epoch && rec.Data.OpeningTxBroadcasted == nil {
				continue // broadcast by an earlier process that died before recording it (judged by the monitor)
			}
			if c.Confs(o.TxID) >= o.Params.CSV {
				continue // matured during the history: the bounded retries may be used up already
			}
			if storeFault {
				h.class("no-restart-closure:skipped-after-store-fault")
				continue // known finding C07-store-write-failure-strands-swap
			}
			demand = append(demand, due{n, o})
		}
	}
	if len(demand) == 0 {
		return
	}
	var pend []string
	for hash, p := range h.W.LN.Payments {
		if p.State == sim.PayPending {
			pend = append(pend, hash)
		}
	}
	sort.Strings(pend)
	for _, hash := range pend {
		h.W.LN.ResolvePending(hash, false)
	}
	for _, step := range []uint32{1, 2, 57, 1, 443, 504, 1, 10080} {
		for _, c := range h.Cfg.Chains {
			if step > 1100 && c == "btc" {
				continue
			}
			h.W.Mine(c, step)
		}
		for k := 0; k < 4; k++ {
			for _, n := range h.nodes() {
				if !h.alive(n) {
					continue
				}
				for _, nt := range n.TakePaymentNotifs() {
					n.DeliverPayment(nt)
				}
				for _, ev := range n.DueWatcherEvents() {
					n.DeliverWatcherEvent(ev)
				}
			}
		}
		for _, m := range h.W.PendingMsgs() {
			h.W.Drop(m)
		}
	}
	h.opf("closure-without-restart(%d openings)", len(demand))
	for _, d := range demand {
		h.class("no-restart-closure:demanded")
		rec := recForOpening(d.n, d.o)
		if !h.alive(d.n) || invoicePaid(h, rec) || outpointSpentByNode(h, d.n, d.o) {
			continue
		}
		st := "?"
		if rec != nil {
			st = string(rec.Current)
		}
		h.stop = col.Violation(h.T, "C07/"+causeOf(h, d.n, d.o)+"/not-refunded-without-restart:"+strings.TrimPrefix(st, "State_"),
			"the csv matured (invoice unpaid, peer silent, services healthy since the closure began, no restart) but the running %s never spent opening output %s:%d; swap state %s\n%s\n-- log --\n%s",
			d.n.Name, d.o.TxID[:8], d.o.Vout, st, h.dump(), tail(sim.LogDump(), 25))
		return
	}
}
