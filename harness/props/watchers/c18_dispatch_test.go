package watchers

import (
	"context"
	"fmt"
	"sync"
	"testing"
	"time"

	"github.com/elementsproject/peerswap/txwatcher"
	"pgregory.net/rapid"

	"verifharness/sim"
	"verifharness/stats"
)

// TestC18RpcWatcherDispatcher: the rpc watcher's new-block dispatcher (StartWatchingTxs) serves every swap
// of the node. One observer that sits in a slow confirmation callback (the taker paying the claim invoice)
// while blocks keep arriving must not stop the dispatcher: every later block is still taken, the matured
// csv of another swap is still reported and a confirmation watch registered afterwards is still served.
// The harness reports new blocks through the hook VerifNewBlock (what the block poller does).
func TestC18RpcWatcherDispatcher(t *testing.T) {
	col := stats.Get("C18.rpc-dispatch")
	rapid.Check(t, func(t *rapid.T) {
		sim.CaseStart(t)
		w := sim.NewWorld()
		defer w.Close()
		chain := rapid.SampledFrom([]string{"btc", "lbtc"}).Draw(t, "chain")
		rpc := &schedRPC{w: w, chain: chain}
		ctx, cancel := context.WithCancel(context.Background())
		defer cancel()
		wt := txwatcher.NewBlockchainRpcTxWatcher(ctx, rpc, 3)
		hold := make(chan struct{})
		var holdOnce sync.Once
		release := func() { holdOnce.Do(func() { close(hold) }) }
		defer release()
		entered := make(chan struct{}, 4)
		var mu sync.Mutex
		confSeen, csvSeen := map[string]int{}, map[string]int{}
		wt.AddConfirmationCallback(func(id, hex string, err error) error {
			mu.Lock()
			confSeen[id]++
			mu.Unlock()
			if id == "slow" {
				entered <- struct{}{}
				<-hold
			}
			return nil
		})
		wt.AddCsvCallback(func(id string) error {
			mu.Lock()
			csvSeen[id]++
			mu.Unlock()
			return nil
		})
		if err := wt.StartWatchingTxs(); err != nil {
			t.Fatal(err)
		}
		mkTx := func(name string) (string, uint32) {
			txid, _, vout, err := w.ExternalOpening(chain, "c18d"+name, 100_000, 0, nil)
			if err != nil {
				t.Fatal(err)
			}
			return txid, vout
		}
		var accepted, refused int
		newBlocks := func(n int) bool {
			for i := 0; i < n; i++ {
				w.Mine(chain, 1)
				if !wt.VerifNewBlock(uint64(w.Height(chain)), 4*time.Second) {
					refused++
					return false
				}
				accepted++
			}
			return true
		}
		slowTx, slowVout := mkTx("slow")
		csvTx, csvVout := mkTx("csv")
		w.Mine(chain, 1)
		start := w.Height(chain)
		csv := uint32(rapid.IntRange(3, 8).Draw(t, "csv"))
		wt.AddWaitForCsvTx("other", csvTx, csvVout, start, csv, nil)
		wt.AddWaitForConfirmationTx("slow", slowTx, slowVout, start, 500, nil)
		desc := fmt.Sprintf("chain=%s csv=%d", chain, csv)
		// the slow swap's transaction confirms: its callback starts and is held
		ok := newBlocks(2)
		select {
		case <-entered:
		case <-time.After(5 * time.Second):
			col.Violation(t, "C18/rpc-dispatcher/confirmation-not-reported", "%s: 3 confirmations and a new block, the confirmation callback was not called", desc)
			return
		}
		// blocks keep arriving while that callback runs
		during := rapid.IntRange(0, 4).Draw(t, "blocksDuringCallback")
		ok = ok && newBlocks(during)
		release()
		after := rapid.IntRange(1, 3).Draw(t, "blocksAfterCallback")
		ok = ok && newBlocks(after)
		// a watch registered afterwards
		lateTx, lateVout := mkTx("late")
		w.Mine(chain, 3)
		lateDone := make(chan struct{})
		go func() {
			defer close(lateDone)
			wt.AddWaitForConfirmationTx("late", lateTx, lateVout, w.Height(chain), 500, nil)
		}()
		select {
		case <-lateDone:
		case <-time.After(5 * time.Second):
			col.Violation(t, "C18/rpc-dispatcher/registration-never-returned", "%s during=%d after=%d: AddWaitForConfirmationTx did not return\n%s", desc, during, after, goroutineDump())
			return
		}
		ok = ok && newBlocks(int(csv)) // whatever happened before: the csv is mature now and blocks arrive
		desc += fmt.Sprintf(" blocksDuringCallback=%d blocksAfterCallback=%d", during, after)
		if !ok {
			col.Violation(t, "C18/rpc-dispatcher/stopped-taking-blocks", "%s: the dispatcher took %d new blocks and then none for 4s\n%s", desc, accepted, goroutineDump())
			return
		}
		seen := func(m map[string]int, id string) bool {
			mu.Lock()
			defer mu.Unlock()
			return m[id] > 0
		}
		if !waitUntil(func() bool { return seen(csvSeen, "other") }, 5*time.Second) {
			col.Violation(t, "C18/rpc-dispatcher/csv-of-other-swap-not-reported", "%s: the csv of the other swap matured %d+ blocks ago and blocks keep arriving, no csv report\n%s", desc, csv, goroutineDump())
			return
		}
		if !waitUntil(func() bool { return seen(confSeen, "late") }, 5*time.Second) {
			col.Violation(t, "C18/rpc-dispatcher/later-confirmation-not-reported", "%s: the transaction of a watch registered afterwards has %d confirmations, no report\n%s", desc, 3+csv, goroutineDump())
			return
		}
		col.Case(desc, during > 0, map[string]interface{}{"chain": chain, "csv": csv, "during": during, "after": after}, fmt.Sprintf("blocks-during-callback:%d", during))
	})
}
