package watchers

import (
	"errors"
	"fmt"
	"sync"

	"github.com/elementsproject/peerswap/txwatcher"
)

// rchain is a block chain with reorganisations: ground truth for the watchers.
type rchain struct {
	mu      sync.Mutex
	base    uint32    // height of blocks[0]
	blocks  []*rblock // best chain
	stale   map[string]*rblock
	mempool map[string]bool
	spent   map[string]bool // txid (single watched output per tx)
	nonce   int
	// faults / interleavings, consumed per RPC call
	errPlan  []bool   // true = this call fails
	minePlan []uint32 // blocks mined right before this call is answered
	calls    int
	// snaps[i] is the ground truth at the moment RPC call i was answered
	snaps   []snap
	tracked string
}

type snap struct {
	tip   uint32
	confs uint32
}

type rblock struct {
	hash string
	txs  map[string]bool
}

func newRchain(height uint32) *rchain {
	c := &rchain{base: height, stale: map[string]*rblock{}, mempool: map[string]bool{}, spent: map[string]bool{}}
	c.blocks = []*rblock{c.newBlock()}
	return c
}

func (c *rchain) newBlock() *rblock {
	c.nonce++
	return &rblock{hash: fmt.Sprintf("blk%06d", c.nonce), txs: map[string]bool{}}
}

func (c *rchain) tip() uint32 { return c.base + uint32(len(c.blocks)) - 1 }

func (c *rchain) mineLocked(n uint32) {
	for i := uint32(0); i < n; i++ {
		b := c.newBlock()
		for tx := range c.mempool {
			b.txs[tx] = true
		}
		c.mempool = map[string]bool{}
		c.blocks = append(c.blocks, b)
	}
}

func (c *rchain) Mine(n uint32) {
	c.mu.Lock()
	defer c.mu.Unlock()
	c.mineLocked(n)
}

// Reorg replaces the last d blocks by d (+extra) new ones. fate: "remine" puts
// the disconnected transactions into the first new block, "mempool" back into
// the mempool, "drop" forgets them.
func (c *rchain) Reorg(d int, extra uint32, fate string) {
	c.mu.Lock()
	defer c.mu.Unlock()
	if d >= len(c.blocks) {
		d = len(c.blocks) - 1
	}
	if d <= 0 {
		return
	}
	cut := c.blocks[len(c.blocks)-d:]
	c.blocks = c.blocks[:len(c.blocks)-d]
	var txs []string
	for _, b := range cut {
		c.stale[b.hash] = b
		for tx := range b.txs {
			txs = append(txs, tx)
		}
	}
	if fate == "mempool" || fate == "remine" {
		for _, tx := range txs {
			c.mempool[tx] = true
		}
	}
	for i := 0; i < d+int(extra); i++ {
		b := c.newBlock()
		if fate == "remine" && i == 0 {
			for tx := range c.mempool {
				b.txs[tx] = true
			}
			c.mempool = map[string]bool{}
		}
		c.blocks = append(c.blocks, b)
	}
}

func (c *rchain) Broadcast(txid string) {
	c.mu.Lock()
	defer c.mu.Unlock()
	c.mempool[txid] = true
}

func (c *rchain) Spend(txid string) {
	c.mu.Lock()
	defer c.mu.Unlock()
	c.spent[txid] = true
}

// confHeightLocked returns the height at which txid is confirmed on the best chain (0 = not).
func (c *rchain) confHeightLocked(txid string) uint32 {
	for i, b := range c.blocks {
		if b.txs[txid] {
			return c.base + uint32(i)
		}
	}
	return 0
}

// Depth returns the confirmations of txid on the best chain right now and the tip.
func (c *rchain) Depth(txid string) (confs uint32, tip uint32) {
	c.mu.Lock()
	defer c.mu.Unlock()
	h := c.confHeightLocked(txid)
	if h == 0 {
		return 0, c.tip()
	}
	return c.tip() - h + 1, c.tip()
}

func rawOf(txid string) string { return "rawtx:" + txid }

// enter consumes one entry of the fault and interleaving plans.
func (c *rchain) enter() error {
	i := c.calls
	c.calls++
	if i < len(c.minePlan) && c.minePlan[i] > 0 {
		c.mineLocked(c.minePlan[i])
	}
	sn := snap{tip: c.tip()}
	if h := c.confHeightLocked(c.tracked); h != 0 {
		sn.confs = c.tip() - h + 1
	}
	c.snaps = append(c.snaps, sn)
	if i < len(c.errPlan) && c.errPlan[i] {
		return errors.New("rpc: connection reset")
	}
	return nil
}

// ---- txwatcher.BlockchainRpc ----

type rpcFake struct{ c *rchain }

var _ txwatcher.BlockchainRpc = (*rpcFake)(nil)

func (r *rpcFake) GetBlockHeight() (uint64, error) {
	r.c.mu.Lock()
	defer r.c.mu.Unlock()
	if err := r.c.enter(); err != nil {
		return 0, err
	}
	return uint64(r.c.tip()), nil
}

func (r *rpcFake) GetBlockHash(height uint32) (string, error) {
	r.c.mu.Lock()
	defer r.c.mu.Unlock()
	if err := r.c.enter(); err != nil {
		return "", err
	}
	if height < r.c.base || height > r.c.tip() {
		return "", errors.New("Block height out of range")
	}
	return r.c.blocks[height-r.c.base].hash, nil
}

func (r *rpcFake) GetTxOut(txid string, vout uint32) (*txwatcher.TxOutResp, error) {
	r.c.mu.Lock()
	defer r.c.mu.Unlock()
	if err := r.c.enter(); err != nil {
		return nil, err
	}
	if r.c.spent[txid] {
		return nil, nil
	}
	best := r.c.blocks[len(r.c.blocks)-1].hash
	if r.c.mempool[txid] {
		return &txwatcher.TxOutResp{BestBlockHash: best, Confirmations: 0}, nil
	}
	if h := r.c.confHeightLocked(txid); h != 0 {
		return &txwatcher.TxOutResp{BestBlockHash: best, Confirmations: r.c.tip() - h + 1}, nil
	}
	return nil, nil
}

func (r *rpcFake) GetRawtransactionWithBlockHash(txId string, blockHash string) (string, error) {
	r.c.mu.Lock()
	defer r.c.mu.Unlock()
	if err := r.c.enter(); err != nil {
		return "", err
	}
	for _, b := range r.c.blocks {
		if b.hash == blockHash {
			if b.txs[txId] {
				return rawOf(txId), nil
			}
			return "", errors.New("No such transaction found in the provided block")
		}
	}
	if b, ok := r.c.stale[blockHash]; ok && b.txs[txId] {
		return rawOf(txId), nil // bitcoind still serves stale blocks it has on disk
	}
	return "", errors.New("Block hash not found")
}

// SnapsSince returns the ground-truth snapshots of all RPC calls answered since call index i.
func (c *rchain) SnapsSince(i int) []snap {
	c.mu.Lock()
	defer c.mu.Unlock()
	if i > len(c.snaps) {
		i = len(c.snaps)
	}
	return append([]snap{}, c.snaps[i:]...)
}

func (c *rchain) Calls() int {
	c.mu.Lock()
	defer c.mu.Unlock()
	return c.calls
}

// NoteNotification records the instant a block-height notification (possibly a
// delayed one, h <= tip) describes: tip h, with the depth the tracked tx had then.
func (c *rchain) NoteNotification(h uint32) {
	c.mu.Lock()
	defer c.mu.Unlock()
	sn := snap{tip: h}
	if ch := c.confHeightLocked(c.tracked); ch != 0 && ch <= h {
		sn.confs = h - ch + 1
	}
	c.snaps = append(c.snaps, sn)
}

// SnapCount returns the number of recorded instants.
func (c *rchain) SnapCount() int {
	c.mu.Lock()
	defer c.mu.Unlock()
	return len(c.snaps)
}
