package watchers

import (
	"context"
	"fmt"
	"sync"
	"testing"
	"time"

	"github.com/elementsproject/peerswap/txwatcher"
	"pgregory.net/rapid"

	"verifharness/stats"
)

type cbRecord struct {
	kind   string // confirmed|failed|csv
	rawTx  string
	err    string
	confs  uint32 // ground truth at callback time
	tip    uint32
	window bool // window open at callback time
}

type cbLog struct {
	mu   sync.Mutex
	recs []cbRecord
}

func (l *cbLog) add(r cbRecord) {
	l.mu.Lock()
	defer l.mu.Unlock()
	l.recs = append(l.recs, r)
}

func (l *cbLog) snapshot() []cbRecord {
	l.mu.Lock()
	defer l.mu.Unlock()
	return append([]cbRecord{}, l.recs...)
}

// settle waits until the observation loop of swapId is idle again or has finished.
func settle(w *txwatcher.BlockchainRpcTxWatcher, swapId string, sameHeight uint32, log *cbLog, before int) {
	deadline := time.Now().Add(3 * time.Second)
	for time.Now().Before(deadline) {
		if len(log.snapshot()) > before {
			// terminal callback issued; the loop deregisters itself right after
			for w.VerifObserving(swapId) && time.Now().Before(deadline) {
				time.Sleep(100 * time.Microsecond)
			}
			return
		}
		if !w.VerifObserving(swapId) {
			return
		}
		// a duplicate height is ignored by the loop; once it is taken the previous one is fully processed
		if w.VerifNotify(swapId, sameHeight, 2*time.Millisecond) {
			return
		}
	}
}

func TestC20RpcConfirmationWatcher(t *testing.T) {
	col := stats.Get("C20.rpc-conf")
	rapid.Check(t, func(t *rapid.T) {
		required := rapid.SampledFrom([]uint32{3, 2}).Draw(t, "requiredConfs")
		window := uint32(504)
		if required == 2 {
			window = 60
		}
		base := rapid.SampledFrom([]uint32{1000, 1000, 700_000, 1<<32 - 100_000}).Draw(t, "baseHeight")
		c := newRchain(base)
		txid := "aa11"
		c.tracked = txid
		log := &cbLog{}
		var start uint32
		obsStart := 0 // index of the first RPC call of the current observation
		ctx, cancel := context.WithCancel(context.Background())
		defer cancel()
		w := txwatcher.NewBlockchainRpcTxWatcher(ctx, &rpcFake{c}, required)
		w.AddConfirmationCallback(func(swapId, txHex string, err error) error {
			// A watcher decides on RPC answers gathered over an interval in which blocks may arrive; the
			// reported condition must have held at the instant of at least one of those answers.
			confs, tip := c.Depth(txid)
			r := cbRecord{kind: "confirmed", rawTx: txHex, confs: confs, tip: tip, window: uint64(tip) < uint64(start)+uint64(window)}
			for _, sn := range c.SnapsSince(obsStart) {
				if sn.confs >= required && uint64(sn.tip) < uint64(start)+uint64(window) {
					r.confs, r.tip, r.window = sn.confs, sn.tip, true
					break
				}
			}
			if err != nil {
				r.kind, r.err = "failed", err.Error()
			}
			log.add(r)
			return nil
		})
		var ops []string
		classes := map[string]bool{}
		// the transaction may exist before the swap's start (a maker that broadcast early) or appear later
		pre := rapid.SampledFrom([]string{"none", "none", "mempool", "confirmed-before-start"}).Draw(t, "preState")
		switch pre {
		case "mempool":
			c.Broadcast(txid)
		case "confirmed-before-start":
			c.Broadcast(txid)
			c.Mine(rapid.SampledFrom([]uint32{1, 2, 3, 5}).Draw(t, "preBlocks"))
			classes["confirmed-before-start"] = true
		}
		_, tip0 := c.Depth(txid)
		start = tip0
		// registration may happen late (recovery): the tip can be anywhere relative to the window
		late := rapid.SampledFrom([]uint32{0, 0, 0, 0, 0, 1, 1, 10, window - 4, window - 2, window - 1, window, window + 3}).Draw(t, "blocksBeforeRegistration")
		c.Mine(late)
		ops = append(ops, fmt.Sprintf("pre=%s start=%d late=%d", pre, start, late))
		// interleavings inside the very first observation
		c.minePlan = []uint32{0, rapid.SampledFrom([]uint32{0, 0, 1, 2}).Draw(t, "mineAfterKickoffRead"), 0, rapid.SampledFrom([]uint32{0, 0, 1}).Draw(t, "mineBetweenRpcs")}
		if c.minePlan[1] > 0 {
			classes["stale-kickoff-height"] = true
		}
		_, kickoff := c.Depth(txid) // the height AddWaitForConfirmationTx reads and hands to the loop
		obsStart = c.SnapCount()
		w.AddWaitForConfirmationTx("swap1", txid, 0, start, window, nil)
		settle(w, "swap1", kickoff, log, 0)
		lastNotified := kickoff
		steps := rapid.IntRange(1, 14).Draw(t, "steps")
		for i := 0; i < steps && len(log.snapshot()) == 0; i++ {
			op := rapid.SampledFrom([]string{"mine", "mine", "broadcast", "notify", "notify", "notify-stale", "notify-stale", "confirm-now", "reorg", "rpc-errors", "spend", "mine-during-observation"}).Draw(t, "op")
			switch op {
			case "mine":
				n := rapid.SampledFrom([]uint32{1, 1, 1, 1, 1, 2, 2, 3, 3, 10, window - 3, window}).Draw(t, "n")
				c.Mine(n)
				ops = append(ops, fmt.Sprintf("mine(%d)", n))
			case "broadcast":
				c.Broadcast(txid)
				ops = append(ops, "broadcast")
			case "confirm-now":
				// the transaction gets its first confirmation(s) just now
				if conf, _ := c.Depth(txid); conf == 0 {
					c.Broadcast(txid)
					n := rapid.SampledFrom([]uint32{1, 1, 2}).Draw(t, "confirmBlocks")
					c.Mine(n)
					ops = append(ops, fmt.Sprintf("confirm-now(%d)", n))
				}
			case "reorg":
				d := rapid.IntRange(1, 3).Draw(t, "depth")
				fate := rapid.SampledFrom([]string{"remine", "mempool", "drop"}).Draw(t, "fate")
				extra := rapid.SampledFrom([]uint32{0, 1}).Draw(t, "extra")
				c.Reorg(d, extra, fate)
				ops = append(ops, fmt.Sprintf("reorg(%d,+%d,%s)", d, extra, fate))
				classes["reorg"] = true
			case "spend":
				if conf, _ := c.Depth(txid); conf > 0 {
					c.Spend(txid)
					ops = append(ops, "spend")
					classes["spent"] = true
				}
			case "rpc-errors":
				c.mu.Lock()
				c.errPlan = make([]bool, c.calls+4)
				c.errPlan[c.calls+rapid.IntRange(0, 3).Draw(t, "errAt")] = true
				c.mu.Unlock()
				ops = append(ops, "rpc-error-planned")
				classes["rpc-error"] = true
			case "mine-during-observation":
				c.mu.Lock()
				c.minePlan = make([]uint32, c.calls+4)
				c.minePlan[c.calls+rapid.IntRange(0, 3).Draw(t, "mineAt")] = rapid.SampledFrom([]uint32{1, 2}).Draw(t, "mineN")
				c.mu.Unlock()
				ops = append(ops, "mine-during-observation-planned")
				classes["tip-moves-during-observation"] = true
			case "notify", "notify-stale":
				_, tip := c.Depth(txid)
				h := tip
				if op == "notify-stale" {
					// new-block heights are delivered by unordered goroutines and may lag the tip
					lag := rapid.SampledFrom([]uint32{1, 2, 2, 3, 4, 5}).Draw(t, "lag")
					if h > lag && h-lag > lastNotified {
						h -= lag
						classes["stale-notification"] = true
					}
				}
				before := len(log.snapshot())
				obsStart = c.SnapCount()
				c.NoteNotification(h)
				if w.VerifNotify("swap1", h, 500*time.Millisecond) {
					settle(w, "swap1", h, log, before)
					if h > lastNotified {
						lastNotified = h
					}
				}
				ops = append(ops, fmt.Sprintf("notify(%d,tip=%d)", h, tip))
			}
		}
		// closure: the chain is stable and the watcher gets fresh notifications
		c.mu.Lock()
		c.errPlan, c.minePlan = nil, nil
		c.mu.Unlock()
		for k := 0; k < 2 && len(log.snapshot()) == 0; k++ {
			c.Mine(1)
			_, tip := c.Depth(txid)
			before := len(log.snapshot())
			obsStart = c.SnapCount()
			c.NoteNotification(tip)
			if w.VerifNotify("swap1", tip, 500*time.Millisecond) {
				settle(w, "swap1", tip, log, before)
			}
			ops = append(ops, fmt.Sprintf("closure-notify(%d)", tip))
		}
		recs := log.snapshot()
		desc := fmt.Sprintf("required=%d window=%d start=%d ops=%v", required, window, start, ops)
		if len(recs) > 1 {
			col.Violation(t, "C20/rpc/duplicate-callback", "%s: %d terminal callbacks for one registration: %+v", desc, len(recs), recs)
			return
		}
		confsNow, tipNow2 := c.Depth(txid)
		windowOpen := uint64(tipNow2) < uint64(start)+uint64(window)
		if len(recs) == 1 {
			r := recs[0]
			classes["callback:"+r.kind] = true
			if r.kind == "confirmed" {
				if r.rawTx != rawOf(txid) {
					col.Violation(t, "C20/rpc/wrong-raw-tx", "%s: confirmed with raw tx %q", desc, r.rawTx)
					return
				}
				if r.confs < required {
					col.Violation(t, "C20/rpc/confirmed-without-depth", "%s: reported confirmed at tip %d with %d confirmations on the best chain (need %d)", desc, r.tip, r.confs, required)
					return
				}
				if !r.window {
					col.Violation(t, "C20/rpc/confirmed-after-window", "%s: reported confirmed at tip %d although the window [%d,%d) is closed", desc, r.tip, start, uint64(start)+uint64(window))
					return
				}
			} else if r.window {
				classes["failure-while-window-open"] = true
			}
		} else {
			// nothing reported although the chain has been stable with fresh notifications
			if !windowOpen {
				col.Violation(t, "C20/rpc/no-failure-after-window", "%s: window closed (tip %d) but no failure was reported", desc, tipNow2)
				return
			}
			if confsNow >= required && !classes["spent"] {
				col.Violation(t, "C20/rpc/confirmation-missed", "%s: tx has %d confirmations at tip %d, window open, nothing reported", desc, confsNow, tipNow2)
				return
			}
		}
		var cl []string
		nt := false
		for k := range classes {
			cl = append(cl, k)
			if k == "reorg" || k == "stale-notification" || k == "stale-kickoff-height" || k == "tip-moves-during-observation" {
				nt = true
			}
		}
		if late >= window-2 {
			nt = true
			cl = append(cl, "edge-height")
		}
		col.Case(desc, nt, map[string]interface{}{"required": required, "window": window, "start": start, "ops": ops, "callbacks": recs}, cl...)
	})
}
