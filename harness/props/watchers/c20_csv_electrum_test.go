package watchers

import (
	"context"
	"errors"
	"fmt"
	"sync"
	"sync/atomic"
	"testing"
	"time"

	"github.com/btcsuite/btcd/chaincfg/chainhash"
	goelectrum "github.com/checksum0/go-electrum/electrum"
	"github.com/elementsproject/peerswap/electrum"
	"github.com/elementsproject/peerswap/swap"
	"github.com/elementsproject/peerswap/txwatcher"
	"pgregory.net/rapid"

	"verifharness/stats"
)

// ---- RPC watcher: csv maturity ----

func TestC20RpcCsvWatcher(t *testing.T) {
	col := stats.Get("C20.rpc-csv")
	rapid.Check(t, func(t *rapid.T) {
		csv := rapid.SampledFrom([]uint32{1008, 10080, 60, 5}).Draw(t, "csv")
		c := newRchain(1000)
		txid := "cc22"
		c.tracked = txid
		var calls []snap
		var mu sync.Mutex
		w := txwatcher.NewBlockchainRpcTxWatcher(context.Background(), &rpcFake{c}, 3)
		obsStart := 0
		// the csv callback is the swap state machine: it may take a while (the first report is held at a
		// gate the history opens), and the next block can arrive while it is still running
		gate := make(chan struct{})
		var held atomic.Bool
		holdFirst := rapid.Bool().Draw(t, "reportHeld")
		w.AddCsvCallback(func(swapId string) error {
			if holdFirst && held.CompareAndSwap(false, true) {
				select {
				case <-gate:
				case <-time.After(2 * time.Second):
				}
			}
			best := snap{}
			confs, tip := c.Depth(txid)
			best = snap{tip: tip, confs: confs}
			for _, sn := range c.SnapsSince(obsStart) {
				if sn.confs >= csv {
					best = sn
					break
				}
			}
			mu.Lock()
			calls = append(calls, best)
			mu.Unlock()
			return nil
		})
		var ops []string
		classes := map[string]bool{}
		c.Broadcast(txid)
		c.Mine(1)
		pre := rapid.SampledFrom([]uint32{0, 0, csv - 2, csv - 1, csv, csv + 5}).Draw(t, "blocksBeforeRegistration")
		c.Mine(pre)
		obsStart = c.SnapCount()
		callsBefore := c.Calls()
		w.AddWaitForCsvTx("swap1", txid, 0, 1000, csv, nil)
		// the registration looks at the chain once on a goroutine of its own ("already past csv?"): let
		// it finish, so that its rpc call and a possible report do not interleave with the history below
		waitUntil(func() bool { return c.Calls() > callsBefore }, 300*time.Millisecond)
		time.Sleep(500 * time.Microsecond)
		ops = append(ops, fmt.Sprintf("register-after(%d)", pre))
		if holdFirst {
			// blocks arrive while the first report (if there is one already) is still being processed
			for k, nb := 0, rapid.IntRange(0, 2).Draw(t, "blocksWhileHeld"); k < nb; k++ {
				c.Mine(1)
				_, tip := c.Depth(txid)
				obsStart = c.SnapCount()
				c.NoteNotification(tip)
				done := make(chan struct{})
				go func() { defer close(done); _ = w.HandleCsvTx(uint64(tip)) }()
				select {
				case <-done:
				case <-time.After(20 * time.Millisecond): // it may legitimately wait for the report in flight
				}
				ops = append(ops, "block-while-report-held")
				classes["block-while-report-held"] = true
			}
			close(gate)
			time.Sleep(time.Millisecond)
		}
		steps := rapid.IntRange(1, 10).Draw(t, "steps")
		for i := 0; i < steps; i++ {
			op := rapid.SampledFrom([]string{"mine", "mine", "handle", "handle", "reorg", "spend", "rpc-error", "mine-during"}).Draw(t, "op")
			switch op {
			case "mine":
				n := rapid.SampledFrom([]uint32{1, 1, 2, csv - 3, csv / 2}).Draw(t, "n")
				c.Mine(n)
				ops = append(ops, fmt.Sprintf("mine(%d)", n))
			case "reorg":
				d := rapid.IntRange(1, 3).Draw(t, "depth")
				fate := rapid.SampledFrom([]string{"remine", "mempool", "drop"}).Draw(t, "fate")
				c.Reorg(d, 0, fate)
				ops = append(ops, fmt.Sprintf("reorg(%d,%s)", d, fate))
				classes["reorg"] = true
			case "spend":
				c.Spend(txid)
				ops = append(ops, "spend")
				classes["spent"] = true
			case "rpc-error":
				c.mu.Lock()
				c.errPlan = make([]bool, c.calls+2)
				c.errPlan[c.calls] = true
				c.mu.Unlock()
				classes["rpc-error"] = true
			case "mine-during":
				c.mu.Lock()
				c.minePlan = make([]uint32, c.calls+2)
				c.minePlan[c.calls] = 1
				c.mu.Unlock()
				classes["tip-moves-during-observation"] = true
			case "handle":
				_, tip := c.Depth(txid)
				h := tip
				if rapid.IntRange(0, 2).Draw(t, "stale") == 0 && h > 3 {
					h -= uint32(rapid.IntRange(1, 3).Draw(t, "lag"))
					classes["stale-notification"] = true
				}
				obsStart = c.SnapCount()
				c.NoteNotification(h)
				if err := w.HandleCsvTx(uint64(h)); err != nil {
					t.Fatalf("HandleCsvTx: %v", err)
				}
				ops = append(ops, fmt.Sprintf("handle(%d,tip=%d)", h, tip))
			}
		}
		// closure
		c.mu.Lock()
		c.errPlan, c.minePlan = nil, nil
		c.mu.Unlock()
		c.Mine(1)
		_, tip := c.Depth(txid)
		obsStart = c.SnapCount()
		c.NoteNotification(tip)
		_ = w.HandleCsvTx(uint64(tip))
		desc := fmt.Sprintf("csv=%d ops=%v", csv, ops)
		// a report that is being delivered right now (in-flight notification) may need a moment
		if confs, _ := c.Depth(txid); confs >= csv && !classes["spent"] {
			waitUntil(func() bool { mu.Lock(); defer mu.Unlock(); return len(calls) > 0 }, 300*time.Millisecond)
		}
		mu.Lock()
		got := append([]snap{}, calls...)
		mu.Unlock()
		if len(got) > 1 {
			col.Violation(t, "C20/rpc/csv-duplicate-callback", "%s: csv callback %d times for one registration", desc, len(got))
			return
		}
		confs, tipNow := c.Depth(txid)
		if len(got) == 1 {
			classes["csv-reported"] = true
			if got[0].confs < csv {
				col.Violation(t, "C20/rpc/csv-reported-early", "%s: csv maturity reported with %d confirmations at tip %d (need %d)", desc, got[0].confs, got[0].tip, csv)
				return
			}
		} else if confs >= csv && !classes["spent"] {
			col.Violation(t, "C20/rpc/csv-missed", "%s: output is %d deep at tip %d (csv %d) on a stable chain but maturity was not reported", desc, confs, tipNow, csv)
			return
		}
		var cl []string
		nt := pre >= csv-2
		for k := range classes {
			cl = append(cl, k)
			if k == "reorg" || k == "stale-notification" {
				nt = true
			}
		}
		col.Case(desc, nt, map[string]interface{}{"csv": csv, "ops": ops, "reported": len(got)}, cl...)
	})
}

// ---- Electrum observers ----

type electrumFake struct {
	c     *rchain
	txids map[string]string // txid hash string -> tracked id
	fail  []bool
	calls int
}

func (e *electrumFake) SubscribeHeaders(ctx context.Context) (<-chan *goelectrum.SubscribeHeadersResult, error) {
	return make(chan *goelectrum.SubscribeHeadersResult), nil
}

func (e *electrumFake) GetHistory(ctx context.Context, scripthash string) ([]*goelectrum.GetMempoolResult, error) {
	e.c.mu.Lock()
	defer e.c.mu.Unlock()
	if err := e.c.enter(); err != nil {
		return nil, err
	}
	var out []*goelectrum.GetMempoolResult
	for hash, id := range e.txids {
		if e.c.mempool[id] {
			out = append(out, &goelectrum.GetMempoolResult{Hash: hash, Height: 0})
		} else if h := e.c.confHeightLocked(id); h != 0 {
			out = append(out, &goelectrum.GetMempoolResult{Hash: hash, Height: int32(h)})
		}
	}
	// an unrelated history entry and a nil entry, as servers may return
	out = append(out, &goelectrum.GetMempoolResult{Hash: "zz", Height: 7}, nil)
	return out, nil
}

func (e *electrumFake) GetRawTransaction(ctx context.Context, txHash string) (string, error) {
	e.c.mu.Lock()
	defer e.c.mu.Unlock()
	if err := e.c.enter(); err != nil {
		return "", err
	}
	return rawOf(e.txids[txHash]), nil
}
func (e *electrumFake) BroadcastTransaction(context.Context, string) (string, error) { return "", nil }
func (e *electrumFake) GetFee(context.Context, uint32) (float32, error)              { return 0, nil }
func (e *electrumFake) Ping(context.Context) error                                   { return nil }
func (e *electrumFake) Reboot(context.Context) error                                 { return nil }

var errSwapGone = errors.New("gone")

func TestC20ElectrumObservers(t *testing.T) {
	col := stats.Get("C20.electrum")
	rapid.Check(t, func(t *rapid.T) {
		base := rapid.SampledFrom([]uint32{1000, 2_000_000}).Draw(t, "base")
		c := newRchain(base)
		txid := "ee33"
		c.tracked = txid
		var txHash chainhash.Hash
		copy(txHash[:], []byte("0123456789abcdef0123456789abcdef"))
		fake := &electrumFake{c: c, txids: map[string]string{txHash.String(): txid}}
		window := uint32(60)
		csv := rapid.SampledFrom([]uint32{10080, 60, 5}).Draw(t, "csv")
		sub := electrum.NewLiquidBlockHeaderSubscriber()
		spk, err := electrum.NewScriptPubKey(append([]byte{0x00, 0x20}, make([]byte, 32)...))
		if err != nil {
			t.Fatal(err)
		}
		var id swap.SwapId
		id[0] = 1
		var id2 swap.SwapId
		id2[0] = 2
		var recs []cbRecord
		var csvCalls []snap
		obsStart := 0
		var start uint32
		confCb := func(swapId string, txHex string, err error) error {
			confs, tip := c.Depth(txid)
			r := cbRecord{kind: "confirmed", rawTx: txHex, confs: confs, tip: tip, window: uint64(tip) >= uint64(start) && uint64(tip) < uint64(start)+uint64(window)}
			for _, sn := range c.SnapsSince(obsStart) {
				if sn.confs >= 2 && uint64(sn.tip) >= uint64(start) && uint64(sn.tip) < uint64(start)+uint64(window) {
					r.confs, r.tip, r.window = sn.confs, sn.tip, true
					break
				}
			}
			if err != nil {
				r.kind, r.err = "failed", err.Error()
				r.window = false
				for _, sn := range c.SnapsSince(obsStart) {
					if uint64(sn.tip) >= uint64(start) && uint64(sn.tip) < uint64(start)+uint64(window) {
						r.window = true
					}
				}
			}
			recs = append(recs, r)
			return nil
		}
		csvCb := func(swapId string) error {
			confs, tip := c.Depth(txid)
			best := snap{tip: tip, confs: confs}
			for _, sn := range c.SnapsSince(obsStart) {
				if sn.confs >= csv {
					best = sn
					break
				}
			}
			csvCalls = append(csvCalls, best)
			return nil
		}
		pre := rapid.SampledFrom([]string{"none", "none", "mempool", "confirmed-before-start"}).Draw(t, "preState")
		if pre != "none" {
			c.Broadcast(txid)
		}
		if pre == "confirmed-before-start" {
			c.Mine(2)
		}
		_, start = c.Depth(txid)
		o1 := electrum.NewObserveOpeningTX(id, &txHash, spk, fake, confCb, start, window)
		o2 := electrum.NewobserveCSVTX(id2, &txHash, spk, fake, csvCb, csv)
		sub.Register(&o1)
		sub.Register(&o2)
		var ops []string
		classes := map[string]bool{}
		lastH := int64(0)
		update := func(h int64) {
			obsStart = c.SnapCount()
			if h > 0 {
				c.NoteNotification(uint32(h))
			}
			_ = sub.Update(context.Background(), electrum.BlockHeight(h))
			ops = append(ops, fmt.Sprintf("update(%d)", h))
		}
		steps := rapid.IntRange(1, 14).Draw(t, "steps")
		for i := 0; i < steps; i++ {
			op := rapid.SampledFrom([]string{"mine", "mine", "broadcast", "update", "update", "update-stale", "update-odd", "reorg", "rpc-error", "mine-during"}).Draw(t, "op")
			switch op {
			case "mine":
				n := rapid.SampledFrom([]uint32{1, 1, 1, 2, 3, 10, window - 3, window, csv - 2}).Draw(t, "n")
				c.Mine(n)
				ops = append(ops, fmt.Sprintf("mine(%d)", n))
			case "broadcast":
				c.Broadcast(txid)
				ops = append(ops, "broadcast")
			case "reorg":
				d := rapid.IntRange(1, 3).Draw(t, "depth")
				fate := rapid.SampledFrom([]string{"remine", "mempool", "drop"}).Draw(t, "fate")
				c.Reorg(d, uint32(rapid.IntRange(0, 1).Draw(t, "extra")), fate)
				ops = append(ops, fmt.Sprintf("reorg(%d,%s)", d, fate))
				classes["reorg"] = true
			case "rpc-error":
				c.mu.Lock()
				c.errPlan = make([]bool, c.calls+3)
				c.errPlan[c.calls+rapid.IntRange(0, 2).Draw(t, "errAt")] = true
				c.mu.Unlock()
				classes["rpc-error"] = true
			case "mine-during":
				c.mu.Lock()
				c.minePlan = make([]uint32, c.calls+3)
				c.minePlan[c.calls+rapid.IntRange(0, 2).Draw(t, "mineAt")] = 1
				c.mu.Unlock()
				classes["tip-moves-during-observation"] = true
			case "update":
				_, tip := c.Depth(txid)
				update(int64(tip))
				lastH = int64(tip)
			case "update-stale":
				_, tip := c.Depth(txid)
				h := int64(tip) - int64(rapid.IntRange(1, 4).Draw(t, "lag"))
				if h > 0 {
					update(h)
					classes["stale-notification"] = true
				}
			case "update-odd":
				// heights a misbehaving / restarting server may announce
				update(rapid.SampledFrom([]int64{0, -1, lastH, 1}).Draw(t, "oddHeight"))
				classes["odd-height"] = true
			}
		}
		c.mu.Lock()
		c.errPlan, c.minePlan = nil, nil
		c.mu.Unlock()
		for k := 0; k < 2; k++ {
			c.Mine(1)
			_, tip := c.Depth(txid)
			update(int64(tip))
		}
		desc := fmt.Sprintf("start=%d csv=%d pre=%s ops=%v", start, csv, pre, ops)
		if len(recs) > 1 {
			col.Violation(t, "C20/electrum/duplicate-callback", "%s: %d terminal confirmation callbacks: %+v", desc, len(recs), recs)
			return
		}
		if len(csvCalls) > 1 {
			col.Violation(t, "C20/electrum/csv-duplicate-callback", "%s: csv reported %d times", desc, len(csvCalls))
			return
		}
		confs, tipNow := c.Depth(txid)
		open := uint64(tipNow) >= uint64(start) && uint64(tipNow) < uint64(start)+uint64(window)
		if len(recs) == 1 {
			r := recs[0]
			classes["callback:"+r.kind] = true
			if r.kind == "confirmed" {
				if r.rawTx != rawOf(txid) {
					col.Violation(t, "C20/electrum/wrong-raw-tx", "%s: raw tx %q", desc, r.rawTx)
					return
				}
				if r.confs < 2 {
					col.Violation(t, "C20/electrum/confirmed-without-depth", "%s: reported confirmed with %d confirmations at tip %d", desc, r.confs, r.tip)
					return
				}
				if !r.window {
					col.Violation(t, "C20/electrum/confirmed-outside-window", "%s: reported confirmed at tip %d, window [%d,%d)", desc, r.tip, start, start+window)
					return
				}
			} else if r.window {
				classes["failure-while-window-open"] = true
			}
		} else {
			if !open {
				col.Violation(t, "C20/electrum/no-failure-after-window", "%s: window closed at tip %d, nothing reported", desc, tipNow)
				return
			}
			if confs >= 2 {
				col.Violation(t, "C20/electrum/confirmation-missed", "%s: %d confirmations at tip %d, window open, nothing reported", desc, confs, tipNow)
				return
			}
		}
		if len(csvCalls) == 1 {
			classes["csv-reported"] = true
			if csvCalls[0].confs < csv {
				col.Violation(t, "C20/electrum/csv-reported-early", "%s: csv maturity reported with %d confirmations at tip %d", desc, csvCalls[0].confs, csvCalls[0].tip)
				return
			}
		} else if confs >= csv {
			col.Violation(t, "C20/electrum/csv-missed", "%s: output %d deep (csv %d), not reported", desc, confs, csv)
			return
		}
		var cl []string
		nt := false
		for k := range classes {
			cl = append(cl, k)
			if k == "reorg" || k == "stale-notification" || k == "odd-height" {
				nt = true
			}
		}
		col.Case(desc, nt, map[string]interface{}{"start": start, "csv": csv, "ops": ops, "callbacks": recs, "csv_reports": len(csvCalls)}, cl...)
	})
}
