package watchers

import (
	"context"
	"encoding/hex"
	"encoding/json"
	"fmt"
	"strings"
	"testing"
	"time"

	"github.com/btcsuite/btcd/chaincfg"
	"github.com/elementsproject/peerswap/lnd"
	"github.com/elementsproject/peerswap/swap"
	"pgregory.net/rapid"

	"verifharness/sim"
	"verifharness/stats"
)

// TestC18NoDeadlockLndWatcher: the same late-cancel / failed-coop-close against csv-maturity race as the
// rpc and electrum variants, with the real LND tx watcher (over the fake chain notifier). The schedule is
// owned through one scheduling point inside the message handler (the retransmitter is being removed, the
// swap mutex is held) while the maturing block is delivered to the watcher's goroutine.
func TestC18NoDeadlockLndWatcher(t *testing.T) {
	col := stats.Get("C18.lnd")
	rapid.Check(t, func(t *rapid.T) {
		sim.CaseStart(t)
		w := sim.NewWorld()
		defer w.Close()
		a := w.AddNode("alice")
		m := w.AddNode("mallory")
		w.LN.AddChannel("300x3x0", a.Id, m.Id, 5_000_000_000, 5_000_000_000)
		c := newRchain(700_000)
		l := &lndChain{c: c}
		ctx, cancel := context.WithCancel(context.Background())
		defer cancel()
		var lw *lnd.TxWatcher
		a.LbtcEnabled = false
		a.WalletFactory = func(p *sim.Proc, ch string) (swap.Wallet, swap.Validator, swap.TxWatcher) {
			tw := sim.NewTokenWallet(p, ch)
			if ch != "btc" {
				return tw, tw, nil
			}
			lw = lnd.VerifNewTxWatcher(ctx, &lndInfo{l: l}, &lndNotifier{l: l}, &chaincfg.RegressionNetParams, 3, 1008)
			return tw, tw, lw
		}
		if err := a.Boot(); err != nil {
			t.Fatal(err)
		}
		takerKey := sim.KeyFromName("c18l-taker")
		takerPub := hex.EncodeToString(takerKey.PubKey().SerializeCompressed())
		var sm *swap.SwapStateMachine
		var err error
		w.Step(a, func() { sm, err = a.Svc.SwapIn(m.Id, "btc", "300x3x0", a.Id, 1_000_000, 100_000) })
		if err != nil {
			t.Fatalf("SwapIn: %v", err)
		}
		id, sid := sm.SwapId.String(), sm.SwapId
		agr, _ := json.Marshal(&swap.SwapInAgreementMessage{ProtocolVersion: 7, SwapId: sid, Pubkey: takerPub, Premium: 0})
		a.Deliver(m.Id, mtSwapInAgreement, agr)
		if len(a.Openings) != 1 {
			t.Fatalf("harness: maker did not open\n%s", sim.LogDump())
		}
		// the opening transaction exists on the chain the LND watcher looks at, too
		c.tracked = a.Openings[0].TxID
		c.Broadcast(a.Openings[0].TxID)
		rel := rapid.SampledFrom([]string{"one-short", "one-short", "just-matured", "long-matured"}).Draw(t, "csvState")
		switch rel {
		case "one-short":
			c.Mine(1007)
			w.Mine("btc", 1007)
		case "just-matured":
			c.Mine(1008)
			w.Mine("btc", 1008)
		case "long-matured":
			c.Mine(1030)
			w.Mine("btc", 1030)
		}
		l.pump()
		l.settle()
		kind := rapid.SampledFrom([]string{"cancel", "coop-badkey", "coop-invalid"}).Draw(t, "event")
		var typ int
		var payload []byte
		switch kind {
		case "cancel":
			typ = mtCancel
			payload, _ = json.Marshal(&swap.CancelMessage{SwapId: sid, Message: "bye"})
		case "coop-badkey":
			typ = mtCoopClose
			payload, _ = json.Marshal(&swap.CoopCloseMessage{SwapId: sid, Message: "x", Privkey: strings.Repeat("11", 32)})
		case "coop-invalid":
			typ = mtCoopClose
			payload = []byte(fmt.Sprintf(`{"swap_id":"%s","message":"x","privkey":"abcd"}`, id))
		}
		park := rapid.SampledFrom([]string{"mgr.RemoveSender:enter", "mgr.RemoveSender:enter", "store.UpdateData:enter", ""}).Draw(t, "parkAt")
		parked := make(chan struct{})
		if park != "" {
			w.Locked(func() { w.ParkOn, w.ParkOnNode, w.Parked = park, "alice", parked })
		}
		msg := spawn(kind, func() { a.Deliver(m.Id, typ, payload) })
		if park != "" {
			select {
			case <-parked:
			case <-msg.done:
			case <-time.After(2 * time.Second):
			}
		}
		// the block that matures the csv (or just another block) reaches the watcher's goroutine now
		c.Mine(1)
		w.Mine("btc", 1)
		l.pump()
		time.Sleep(time.Duration(rapid.SampledFrom([]int{0, 1, 5}).Draw(t, "blockLeadMs")) * time.Millisecond)
		w.Release()
		desc := fmt.Sprintf("csvState=%s event=%s park=%q", rel, kind, park)
		select {
		case <-msg.done:
		case <-time.After(5 * time.Second):
			w.Locked(func() { w.ParkOn = "" })
			col.Violation(t, "C18/deadlock/lnd-watcher", "%s: the message handler never returned (5s after its scheduling point was released)\n%s", desc, goroutineDump())
			return
		}
		// closure: more blocks, the refund must happen
		isRefunded := func() bool {
			r := findRec(a, id)
			return r != nil && r.Current == swap.State_ClaimedCsv
		}
		for i := 0; i < 4 && !isRefunded(); i++ {
			c.Mine(1)
			w.Mine("btc", 1)
			l.pump()
			l.settle()
			waitUntil(isRefunded, 200*time.Millisecond)
		}
		if !isRefunded() {
			st := "none"
			if r := findRec(a, id); r != nil {
				st = string(r.Current)
			}
			col.Violation(t, "C18/lnd/no-refund-after-late-event:"+strings.TrimPrefix(st, "State_"), "%s: the csv matured and blocks kept coming but the swap is in %s\n%s", desc, st, tailLog(30))
			return
		}
		col.Case(desc, park != "", map[string]interface{}{"csv_state": rel, "event": kind, "park": park}, "csv:"+rel, "park:"+park)
	})
}
