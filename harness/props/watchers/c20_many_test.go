package watchers

import (
	"context"
	"fmt"
	"sort"
	"testing"

	"github.com/btcsuite/btcd/chaincfg/chainhash"
	"github.com/elementsproject/peerswap/electrum"
	"github.com/elementsproject/peerswap/swap"
	"pgregory.net/rapid"

	"verifharness/stats"
)

// TestC20ElectrumManyObservers: one Electrum/LWK block subscriber serves all swaps of the node. Three to
// six registrations (opening confirmation and csv maturity, each with its own transaction) become
// reportable at generated times, several of them in the same block; observers deregister themselves while
// the subscriber walks its list. Each registration is reported at most once, only when its transaction is
// deep enough, and every registration that is due when a block notification arrives has been reported
// after the following one.
func TestC20ElectrumManyObservers(t *testing.T) {
	col := stats.Get("C20.electrum-many")
	rapid.Check(t, func(t *rapid.T) {
		c := newRchain(rapid.SampledFrom([]uint32{1000, 2_000_000}).Draw(t, "base"))
		fake := &electrumFake{c: c, txids: map[string]string{}}
		sub := electrum.NewLiquidBlockHeaderSubscriber()
		spk, err := electrum.NewScriptPubKey(append([]byte{0x00, 0x20}, make([]byte, 32)...))
		if err != nil {
			t.Fatal(err)
		}
		n := rapid.IntRange(3, 6).Draw(t, "observers")
		type reg struct {
			name   string
			txid   string
			kind   string
			need   uint32 // confirmations that make it reportable
			at     int    // step at which the transaction is broadcast
			calls  int
			early  string
			broadc bool
		}
		regs := make([]*reg, n)
		for i := 0; i < n; i++ {
			r := &reg{name: fmt.Sprintf("swap%d", i), txid: fmt.Sprintf("aa%02d", i), kind: rapid.SampledFrom([]string{"opening", "csv"}).Draw(t, "kind"), at: rapid.IntRange(0, 3).Draw(t, "broadcastStep")}
			r.need = 2
			if r.kind == "csv" {
				r.need = uint32(rapid.IntRange(2, 5).Draw(t, "csv"))
			}
			var h chainhash.Hash
			copy(h[:], []byte(fmt.Sprintf("many-observers-tx-%02d-0123456789abcdef", i)))
			fake.txids[h.String()] = r.txid
			var id swap.SwapId
			id[0], id[1] = byte(i+1), 0xee
			rr := r
			_, start := c.Depth(r.txid)
			if r.kind == "opening" {
				o := electrum.NewObserveOpeningTX(id, &h, spk, fake, func(swapId string, txHex string, err error) error {
					rr.calls++
					if confs, _ := c.Depth(rr.txid); err == nil && confs < rr.need {
						rr.early = fmt.Sprintf("reported as confirmed with %d confirmations", confs)
					} else if err != nil {
						rr.early = "reported as failed: " + err.Error()
					}
					return nil
				}, start, 5000)
				sub.Register(&o)
			} else {
				o := electrum.NewobserveCSVTX(id, &h, spk, fake, func(swapId string) error {
					rr.calls++
					if confs, _ := c.Depth(rr.txid); confs < rr.need {
						rr.early = fmt.Sprintf("csv %d reported with %d confirmations", rr.need, confs)
					}
					return nil
				}, r.need)
				sub.Register(&o)
			}
			regs[i] = r
		}
		var ops []string
		sameBlock := 0
		update := func() {
			_, tip := c.Depth("none")
			due := 0
			for _, r := range regs {
				if confs, _ := c.Depth(r.txid); confs >= r.need && r.calls == 0 {
					due++
				}
			}
			if due > 1 {
				sameBlock++
			}
			_ = sub.Update(context.Background(), electrum.BlockHeight(tip))
			ops = append(ops, fmt.Sprintf("update(%d due)", due))
		}
		steps := rapid.IntRange(3, 9).Draw(t, "steps")
		for i := 0; i < steps; i++ {
			for _, r := range regs {
				if r.at == i && !r.broadc {
					c.Broadcast(r.txid)
					r.broadc = true
					ops = append(ops, "broadcast("+r.name+")")
				}
			}
			m := rapid.SampledFrom([]uint32{0, 1, 1, 2, 3}).Draw(t, "mine")
			c.Mine(m)
			ops = append(ops, fmt.Sprintf("mine(%d)", m))
			if rapid.IntRange(0, 3).Draw(t, "notify") > 0 {
				update()
			}
		}
		for _, r := range regs {
			if !r.broadc {
				c.Broadcast(r.txid)
			}
		}
		c.Mine(6)
		update()
		c.Mine(1)
		update()
		sort.Slice(regs, func(i, j int) bool { return regs[i].name < regs[j].name })
		desc := fmt.Sprintf("observers=%d ops=%v", n, ops)
		for _, r := range regs {
			if r.early != "" {
				col.Violation(t, "C20/electrum-many/reported-too-early", "%s: %s (%s, needs %d): %s", desc, r.name, r.kind, r.need, r.early)
				return
			}
			if r.calls > 1 {
				col.Violation(t, "C20/electrum-many/duplicate-callback:"+r.kind, "%s: %s (%s) was reported %d times", desc, r.name, r.kind, r.calls)
				return
			}
			if r.calls == 0 {
				confs, _ := c.Depth(r.txid)
				col.Violation(t, "C20/electrum-many/never-reported:"+r.kind, "%s: %s (%s, needs %d) has %d confirmations and two block notifications passed, no report", desc, r.name, r.kind, r.need, confs)
				return
			}
		}
		col.Case(desc, sameBlock > 0, map[string]interface{}{"observers": n, "ops": ops}, fmt.Sprintf("several-due-in-one-block:%v", sameBlock > 0), fmt.Sprintf("observers:%d", n))
	})
}
