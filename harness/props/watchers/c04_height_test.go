package watchers

import (
	"context"
	"fmt"
	"testing"

	"github.com/elementsproject/peerswap/txwatcher"
	"pgregory.net/rapid"

	"verifharness/stats"
)

// TestC04RpcWatcherHeight: the taker's payment-window checks (C04, C05) read the tip through the watcher's
// GetBlockHeight. Whatever happened before - earlier answers, failures, reorganisations - an answer is
// the daemon's tip at that moment, and when the daemon cannot be asked the call fails (the window checks
// then refuse to pay); it never answers with a remembered, older tip.
func TestC04RpcWatcherHeight(t *testing.T) {
	col := stats.Get("C04.rpc-height")
	rapid.Check(t, func(t *rapid.T) {
		c := newRchain(rapid.SampledFrom([]uint32{100, 2_000_000}).Draw(t, "base"))
		wt := txwatcher.NewBlockchainRpcTxWatcher(context.Background(), &rpcFake{c: c}, 2)
		var ops []string
		staleAsked := false
		steps := rapid.IntRange(2, 12).Draw(t, "steps")
		for i := 0; i < steps; i++ {
			switch rapid.SampledFrom([]string{"mine", "query", "query", "query-while-down", "reorg"}).Draw(t, "op") {
			case "mine":
				n := rapid.SampledFrom([]uint32{1, 1, 2, 59, 60, 61}).Draw(t, "n")
				c.Mine(n)
				ops = append(ops, fmt.Sprintf("mine(%d)", n))
			case "reorg":
				c.Reorg(rapid.IntRange(1, 2).Draw(t, "depth"), 0, "remine")
				ops = append(ops, "reorg")
			case "query":
				_, tip := c.Depth("")
				got, err := wt.GetBlockHeight()
				ops = append(ops, "query")
				if err != nil || got != tip {
					col.Violation(t, "C04/rpc-watcher/height-wrong", "ops %v: the daemon's tip is %d, GetBlockHeight returned (%d, %v)", ops, tip, got, err)
					return
				}
			case "query-while-down":
				c.mu.Lock()
				c.errPlan = make([]bool, c.calls+1)
				c.errPlan[c.calls] = true
				c.mu.Unlock()
				_, tip := c.Depth("")
				got, err := wt.GetBlockHeight()
				ops = append(ops, "query-while-down")
				staleAsked = staleAsked || len(ops) > 1
				if err == nil {
					col.Violation(t, "C04/rpc-watcher/height-answered-while-daemon-down", "ops %v: the daemon cannot be reached (its tip is %d), GetBlockHeight answered %d without an error", ops, tip, got)
					return
				}
			}
		}
		col.Case(fmt.Sprint(ops), staleAsked, ops, fmt.Sprintf("asked-while-down:%v", staleAsked))
	})
}
