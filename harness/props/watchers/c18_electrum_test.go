package watchers

import (
	"context"
	"encoding/hex"
	"encoding/json"
	"fmt"
	"strings"
	"sync"
	"testing"
	"time"

	goelectrum "github.com/checksum0/go-electrum/electrum"
	"github.com/elementsproject/peerswap/lwk"
	"github.com/elementsproject/peerswap/swap"
	"pgregory.net/rapid"

	"verifharness/sim"
	"verifharness/stats"
)

// schedElectrum is an electrum.RPC over the simulated liquid chain whose
// history / raw-tx calls are scheduling points.
type schedElectrum struct {
	w       *sim.World
	headers chan *goelectrum.SubscribeHeadersResult

	mu     sync.Mutex
	armed  bool
	parked []*parkedCall
}

func (r *schedElectrum) gate(name string) {
	r.mu.Lock()
	if !r.armed {
		r.mu.Unlock()
		return
	}
	pc := &parkedCall{name: name, release: make(chan struct{})}
	r.parked = append(r.parked, pc)
	r.mu.Unlock()
	<-pc.release
}

func (r *schedElectrum) parkedCount() int {
	r.mu.Lock()
	defer r.mu.Unlock()
	return len(r.parked)
}

func (r *schedElectrum) releaseAt(i int) string {
	r.mu.Lock()
	pc := r.parked[i]
	r.parked = append(r.parked[:i], r.parked[i+1:]...)
	r.mu.Unlock()
	close(pc.release)
	return pc.name
}

func (r *schedElectrum) disarm() {
	r.mu.Lock()
	r.armed = false
	ps := r.parked
	r.parked = nil
	r.mu.Unlock()
	for _, pc := range ps {
		close(pc.release)
	}
}

func (r *schedElectrum) SubscribeHeaders(context.Context) (<-chan *goelectrum.SubscribeHeadersResult, error) {
	return r.headers, nil
}

func (r *schedElectrum) GetHistory(ctx context.Context, scripthash string) ([]*goelectrum.GetMempoolResult, error) {
	r.gate("get_history")
	var out []*goelectrum.GetMempoolResult
	r.w.Locked(func() {
		c := r.w.ChainOf("lbtc")
		for _, id := range c.Order {
			tx := c.Txs[id]
			if tx.Kind != "opening" {
				continue
			}
			out = append(out, &goelectrum.GetMempoolResult{Hash: id, Height: int32(tx.Height)})
		}
	})
	return out, nil
}

func (r *schedElectrum) GetRawTransaction(ctx context.Context, txHash string) (string, error) {
	r.gate("get_transaction")
	var out string
	r.w.Locked(func() {
		if tx := r.w.ChainOf("lbtc").Txs[txHash]; tx != nil {
			out = tx.Hex
		}
	})
	return out, nil
}
func (r *schedElectrum) BroadcastTransaction(context.Context, string) (string, error) { return "", nil }
func (r *schedElectrum) GetFee(context.Context, uint32) (float32, error)              { return 0, nil }
func (r *schedElectrum) Ping(context.Context) error                                   { return nil }
func (r *schedElectrum) Reboot(context.Context) error                                 { return nil }

func TestC18NoDeadlockElectrumWatcher(t *testing.T) {
	col := stats.Get("C18.electrum")
	rapid.Check(t, func(t *rapid.T) {
		sim.CaseStart(t)
		w := sim.NewWorld()
		defer w.Close()
		a := w.AddNode("alice")
		m := w.AddNode("mallory")
		w.LN.AddChannel("300x3x0", a.Id, m.Id, 5_000_000_000, 5_000_000_000)
		const chain = "lbtc"
		csv := uint32(10080)
		el := &schedElectrum{w: w, headers: make(chan *goelectrum.SubscribeHeadersResult)}
		quit := make(chan struct{})
		defer close(quit) // releases header tasks that are still trying to send after a dead-lock
		send := func(h *goelectrum.SubscribeHeadersResult) {
			select {
			case el.headers <- h:
			case <-quit:
			}
		}
		lw, err := lwk.NewElectrumTxWatcher(el)
		if err != nil {
			t.Fatal(err)
		}
		a.BtcEnabled = false
		a.WalletFactory = func(p *sim.Proc, ch string) (swap.Wallet, swap.Validator, swap.TxWatcher) {
			tw := sim.NewTokenWallet(p, ch)
			if ch == "lbtc" {
				return tw, tw, lw
			}
			return tw, tw, nil
		}
		if err := a.Boot(); err != nil {
			t.Fatal(err)
		}
		started := make(chan error, 1)
		go func() { started <- lw.StartWatchingTxs() }()
		el.headers <- &goelectrum.SubscribeHeadersResult{Height: int32(w.Height(chain))}
		if err := <-started; err != nil {
			t.Fatalf("StartWatchingTxs: %v", err)
		}
		takerKey := sim.KeyFromName("c18e-taker")
		takerPub := hex.EncodeToString(takerKey.PubKey().SerializeCompressed())
		var idb [32]byte
		copy(idb[:], rapid.SliceOfN(rapid.Byte(), 32, 32).Draw(t, "id"))
		id := hex.EncodeToString(idb[:])
		sid, _ := swap.ParseSwapIdFromString(id)
		req, _ := json.Marshal(&swap.SwapOutRequestMessage{ProtocolVersion: 7, SwapId: sid, Asset: sim.LbtcAsset, Scid: "300x3x0", Amount: 1_000_000, Pubkey: takerPub, PremiumLimit: 1 << 40})
		a.Deliver(m.Id, mtSwapOutRequest, req)
		for _, pr := range a.InvoicesMade {
			if inv := w.LN.Invoices[pr]; inv != nil && inv.Type == int(swap.INVOICE_FEE) {
				inv.Paid = true
				a.DeliverPayment(sim.Notif{Node: a.Name, SwapId: id, Type: swap.INVOICE_FEE, Payreq: pr})
			}
		}
		if len(a.Openings) != 1 {
			t.Fatalf("harness: maker did not open\n%s", sim.LogDump())
		}
		rel := rapid.SampledFrom([]string{"not-yet", "one-short", "just-matured", "long-matured"}).Draw(t, "csvState")
		switch rel {
		case "not-yet":
			w.Mine(chain, 3)
		case "one-short":
			w.Mine(chain, csv-1)
		case "just-matured":
			w.Mine(chain, csv)
		case "long-matured":
			w.Mine(chain, csv+20)
		}
		el.mu.Lock()
		el.armed = true
		el.mu.Unlock()
		header := func() *task {
			return spawn("header", func() {
				h := &goelectrum.SubscribeHeadersResult{Height: int32(w.Height(chain))}
				send(h)
				send(h) // taken only after the first one was processed completely
			})
		}
		mk := func(kind string) *task {
			switch kind {
			case "cancel":
				p, _ := json.Marshal(&swap.CancelMessage{SwapId: sid, Message: "bye"})
				return spawn(kind, func() { a.Deliver(m.Id, mtCancel, p) })
			case "coop-badkey":
				p, _ := json.Marshal(&swap.CoopCloseMessage{SwapId: sid, Message: "x", Privkey: strings.Repeat("11", 32)})
				return spawn(kind, func() { a.Deliver(m.Id, mtCoopClose, p) })
			case "coop-invalid":
				p := []byte(fmt.Sprintf(`{"swap_id":"%s","message":"x","privkey":"abcd"}`, id))
				return spawn(kind, func() { a.Deliver(m.Id, mtCoopClose, p) })
			case "new-block":
				w.Mine(chain, 1)
				return header()
			case "header":
				return header()
			}
			return nil
		}
		n := rapid.IntRange(2, 4).Draw(t, "tasks")
		var tasks []*task
		var prog []string
		headers := 0
		for i := 0; i < n; i++ {
			k := rapid.SampledFrom([]string{"cancel", "coop-badkey", "coop-invalid", "new-block", "header", "header"}).Draw(t, "task")
			if (k == "new-block" || k == "header") && headers > 0 {
				k = "cancel" // one header in flight at a time (the subscription is a single stream)
			}
			if k == "new-block" || k == "header" {
				headers++
			}
			prog = append(prog, k)
			tasks = append(tasks, mk(k))
			time.Sleep(200 * time.Microsecond)
		}
		var sched []string
		idleSince := time.Now()
		deadlocked := false
		for {
			all := true
			for _, tk := range tasks {
				if !tk.finished() {
					all = false
				}
			}
			if all {
				break
			}
			if pc := el.parkedCount(); pc > 0 {
				i := 0
				if pc > 1 {
					i = rapid.IntRange(0, pc-1).Draw(t, "release")
				}
				sched = append(sched, el.releaseAt(i))
				time.Sleep(300 * time.Microsecond)
				idleSince = time.Now()
				continue
			}
			if time.Since(idleSince) > 1500*time.Millisecond {
				deadlocked = true
				break
			}
			time.Sleep(500 * time.Microsecond)
		}
		desc := fmt.Sprintf("csvState=%s program=%v schedule=%v", rel, prog, sched)
		if deadlocked {
			var stuck []string
			for _, tk := range tasks {
				if !tk.finished() {
					stuck = append(stuck, tk.name)
				}
			}
			dump := goroutineDump()
			el.disarm()
			col.Violation(t, "C18/deadlock/electrum-watcher", "%s: entry points %v never returned (no RPC call parked, no progress for 1.5s)\n%s", desc, stuck, dump)
			return
		}
		el.disarm()
		waitUntil(func() bool { return isDone(findRec(a, id)) }, 300*time.Millisecond)
		if rec := findRec(a, id); rec != nil && !isDone(rec) {
			for i := 0; i < 3 && !isDone(findRec(a, id)); i++ {
				w.Mine(chain, csv)
				done := header()
				select {
				case <-done.done:
					waitUntil(func() bool { return isDone(findRec(a, id)) }, 500*time.Millisecond)
				case <-time.After(3 * time.Second):
					col.Violation(t, "C18/deadlock/electrum-watcher:closure", "%s: header processing never finished in the closure\n%s", desc, goroutineDump())
					return
				}
			}
			rec = findRec(a, id)
			if rec.Current != swap.State_ClaimedCsv {
				col.Violation(t, "C18/electrum/no-refund-after-late-cancel:"+string(rec.Current), "%s: after the csv matured the swap is in %s\n%s", desc, rec.Current, sim.LogDump())
				return
			}
		}
		col.Case(desc, rel != "not-yet" || len(sched) > 2, map[string]interface{}{"csv_state": rel, "program": prog, "schedule": sched}, "csv:"+rel)
	})
}
