package watchers

import (
	"context"
	"encoding/hex"
	"fmt"
	"sync"
	"sync/atomic"
	"testing"
	"time"

	"github.com/btcsuite/btcd/chaincfg"
	"github.com/elementsproject/peerswap/lnd"
	"github.com/lightningnetwork/lnd/lnrpc"
	"github.com/lightningnetwork/lnd/lnrpc/chainrpc"
	"google.golang.org/grpc"
	"google.golang.org/grpc/codes"
	"google.golang.org/grpc/status"
	"pgregory.net/rapid"

	"verifharness/stats"
)

// lndChain fakes the two lnd gRPC clients the LND tx watcher uses (GetInfo, ChainNotifier) over the
// reorganising chain: confirmation notifications fire when the transaction reaches the requested depth
// on the best chain (at once when it already has it), block epochs replay the backlog after the height
// hint and then follow the tip; after a reorganisation the new blocks are announced again.
type lndChain struct {
	c        *rchain
	mu       sync.Mutex
	confs    []*confStream
	epochs   []*epochStream
	activity atomic.Int64
	infoLag  uint32 // GetInfo answers tip-infoLag (the node's view lags the notifier)
	failReg  int    // the next failReg stream registrations fail (lnd unreachable)
}

func (l *lndChain) regFails() bool {
	l.mu.Lock()
	defer l.mu.Unlock()
	if l.failReg > 0 {
		l.failReg--
		return true
	}
	return false
}

type confStream struct {
	grpc.ClientStream
	ctx      context.Context
	txid     string
	numConfs uint32
	ch       chan *chainrpc.ConfEvent
	sent     bool
	l        *lndChain
}

func (s *confStream) Recv() (*chainrpc.ConfEvent, error) {
	select {
	case ev := <-s.ch:
		s.l.activity.Add(1)
		return ev, nil
	case <-s.ctx.Done():
		return nil, status.Error(codes.Canceled, "context canceled")
	}
}

type epochStream struct {
	grpc.ClientStream
	ctx  context.Context
	ch   chan *chainrpc.BlockEpoch
	last uint32
	l    *lndChain
}

func (s *epochStream) Recv() (*chainrpc.BlockEpoch, error) {
	select {
	case ev := <-s.ch:
		s.l.activity.Add(1)
		return ev, nil
	case <-s.ctx.Done():
		return nil, status.Error(codes.Canceled, "context canceled")
	}
}

type lndNotifier struct {
	chainrpc.ChainNotifierClient
	l *lndChain
}

func (n *lndNotifier) RegisterConfirmationsNtfn(ctx context.Context, in *chainrpc.ConfRequest, _ ...grpc.CallOption) (chainrpc.ChainNotifier_RegisterConfirmationsNtfnClient, error) {
	n.l.activity.Add(1)
	if n.l.regFails() {
		return nil, status.Error(codes.Unavailable, "lnd is not reachable")
	}
	// the watcher passes the txid in wire byte order
	b := append([]byte{}, in.Txid...)
	for i, j := 0, len(b)-1; i < j; i, j = i+1, j-1 {
		b[i], b[j] = b[j], b[i]
	}
	s := &confStream{ctx: ctx, txid: hex.EncodeToString(b), numConfs: in.NumConfs, ch: make(chan *chainrpc.ConfEvent, 4), l: n.l}
	n.l.mu.Lock()
	n.l.confs = append(n.l.confs, s)
	n.l.mu.Unlock()
	n.l.pump()
	return s, nil
}

func (n *lndNotifier) RegisterBlockEpochNtfn(ctx context.Context, in *chainrpc.BlockEpoch, _ ...grpc.CallOption) (chainrpc.ChainNotifier_RegisterBlockEpochNtfnClient, error) {
	n.l.activity.Add(1)
	if n.l.regFails() {
		return nil, status.Error(codes.Unavailable, "lnd is not reachable")
	}
	s := &epochStream{ctx: ctx, ch: make(chan *chainrpc.BlockEpoch, 1<<16), last: in.Height, l: n.l}
	n.l.mu.Lock()
	n.l.epochs = append(n.l.epochs, s)
	n.l.mu.Unlock()
	n.l.pump()
	return s, nil
}

type lndInfo struct {
	lnrpc.LightningClient
	l *lndChain
}

func (i *lndInfo) GetInfo(context.Context, *lnrpc.GetInfoRequest, ...grpc.CallOption) (*lnrpc.GetInfoResponse, error) {
	i.l.activity.Add(1)
	_, tip := i.l.c.Depth("")
	i.l.mu.Lock()
	lag := i.l.infoLag
	i.l.mu.Unlock()
	return &lnrpc.GetInfoResponse{BlockHeight: tip - lag}, nil
}

// pump sends what the chain state now warrants.
func (l *lndChain) pump() {
	l.mu.Lock()
	defer l.mu.Unlock()
	for _, s := range l.confs {
		if s.sent || s.ctx.Err() != nil {
			continue
		}
		confs, tip := l.c.Depth(s.txid)
		if confs >= s.numConfs && confs > 0 {
			s.sent = true
			s.ch <- &chainrpc.ConfEvent{Event: &chainrpc.ConfEvent_Conf{Conf: &chainrpc.ConfDetails{RawTx: []byte(rawOf(s.txid)), BlockHeight: tip - confs + 1}}}
		}
	}
	_, tip := l.c.Depth("")
	for _, s := range l.epochs {
		if s.ctx.Err() != nil {
			continue
		}
		for s.last < tip {
			s.last++
			s.ch <- &chainrpc.BlockEpoch{Height: s.last}
		}
	}
}

// reorged re-announces the replaced blocks (their heights are at or below what was announced before).
func (l *lndChain) reorged(depth uint32) {
	l.mu.Lock()
	for _, s := range l.epochs {
		if s.last >= depth {
			s.last -= depth
		}
	}
	l.mu.Unlock()
	l.pump()
}

// settle waits until the watcher's goroutines have nothing left to do.
func (l *lndChain) settle() {
	last, stable := l.activity.Load(), 0
	for i := 0; i < 400 && stable < 6; i++ {
		time.Sleep(300 * time.Microsecond)
		queued := 0
		l.mu.Lock()
		for _, s := range l.confs {
			queued += len(s.ch)
		}
		for _, s := range l.epochs {
			queued += len(s.ch)
		}
		l.mu.Unlock()
		cur := l.activity.Load()
		if cur == last && queued == 0 {
			stable++
		} else {
			stable = 0
		}
		last = cur
	}
}

// TestC20LndWatcher: the LND tx watcher over the fake notifier. (The property's quantifier names the rpc
// and electrum watchers; for LND the unambiguous parts are decided: a confirmation is reported only for a
// transaction that is on the best chain with the required depth, csv maturity only at >= 1008 blocks,
// each registration at most once. LND's watcher leaves the payment window to the state machine, which
// re-checks it per payment attempt - C04/C05; a late confirmation is counted as a class.)
func TestC20LndWatcher(t *testing.T) {
	col := stats.Get("C20.lnd")
	rapid.Check(t, func(t *rapid.T) {
		c := newRchain(1000)
		txid := fmt.Sprintf("%064x", rapid.Uint64Range(1, 1<<60).Draw(t, "txid"))
		c.tracked = txid
		l := &lndChain{c: c}
		ctx, cancel := context.WithCancel(context.Background())
		defer cancel()
		w := lnd.VerifNewTxWatcher(ctx, &lndInfo{l: l}, &lndNotifier{l: l}, &chaincfg.RegressionNetParams, 3, 1008)
		type cb struct {
			kind   string
			txHex  string
			err    error
			confs  uint32
			tip    uint32
			inBest bool
			lag    uint32
		}
		var mu sync.Mutex
		var calls []cb
		allowed := 1 // reports the registrations made so far may produce
		record := func(kind, txHex string, err error) {
			confs, tip := c.Depth(txid)
			l.activity.Add(1)
			mu.Lock()
			l.mu.Lock()
			lag := l.infoLag
			l.mu.Unlock()
			calls = append(calls, cb{kind, txHex, err, confs, tip, confs > 0, lag})
			mu.Unlock()
		}
		w.AddConfirmationCallback(func(swapId, txHex string, err error) error { record("confirmed", txHex, err); return nil })
		w.AddCsvCallback(func(swapId string) error { record("csv", "", nil); return nil })
		mode := rapid.SampledFrom([]string{"confirmation", "confirmation", "csv"}).Draw(t, "mode")
		var ops []string
		classes := map[string]bool{}
		// when is the transaction broadcast / confirmed relative to the registration?
		pre := rapid.SampledFrom([]string{"unbroadcast", "mempool", "1conf", "3conf", "deep"}).Draw(t, "pre")
		switch pre {
		case "mempool":
			c.Broadcast(txid)
		case "1conf":
			c.Broadcast(txid)
			c.Mine(1)
		case "3conf":
			c.Broadcast(txid)
			c.Mine(3)
		case "deep":
			c.Broadcast(txid)
			c.Mine(rapid.SampledFrom([]uint32{143, 144, 503, 504, 1006, 1007, 1008}).Draw(t, "deepBlocks"))
		}
		ops = append(ops, "pre:"+pre)
		_, start := c.Depth(txid)
		if rapid.IntRange(0, 3).Draw(t, "firstRegistrationFails") == 0 {
			l.failReg = 1
			classes["registered-while-lnd-down"] = true
			ops = append(ops, "first-registration-fails")
		}
		if mode == "confirmation" {
			w.AddWaitForConfirmationTx("swap1", txid, 0, start, 504, []byte{0x00, 0x20})
		} else {
			w.AddWaitForCsvTx("swap1", txid, 0, start, 1008, []byte{0x00, 0x20})
		}
		l.settle()
		steps := rapid.IntRange(1, 10).Draw(t, "steps")
		for i := 0; i < steps; i++ {
			op := rapid.SampledFrom([]string{"mine", "mine", "mine", "broadcast", "reorg", "lag", "reregister", "reregister", "lnd-down"}).Draw(t, "op")
			switch op {
			case "mine":
				n := rapid.SampledFrom([]uint32{1, 1, 2, 3, 140, 500, 860}).Draw(t, "n")
				c.Mine(n)
				l.pump()
				ops = append(ops, fmt.Sprintf("mine(%d)", n))
			case "broadcast":
				c.Broadcast(txid)
				ops = append(ops, "broadcast")
			case "reorg":
				d := rapid.IntRange(1, 3).Draw(t, "depth")
				fate := rapid.SampledFrom([]string{"remine", "mempool", "drop"}).Draw(t, "fate")
				c.Reorg(d, 0, fate)
				l.reorged(uint32(d))
				ops = append(ops, fmt.Sprintf("reorg(%d,%s)", d, fate))
				classes["reorg"] = true
			case "lnd-down":
				// lnd is unreachable for the next subscription(s) - and the swap registers right then
				l.mu.Lock()
				l.failReg = rapid.IntRange(1, 2).Draw(t, "failRegistrations")
				l.mu.Unlock()
				mu.Lock()
				if len(calls) >= allowed {
					allowed++
				}
				mu.Unlock()
				if mode == "confirmation" {
					w.AddWaitForConfirmationTx("swap1", txid, 0, start, 504, []byte{0x00, 0x20})
				} else {
					w.AddWaitForCsvTx("swap1", txid, 0, start, 1008, []byte{0x00, 0x20})
				}
				classes["registered-while-lnd-down"] = true
				ops = append(ops, "register-while-lnd-down")
			case "lag":
				l.mu.Lock()
				l.infoLag = uint32(rapid.IntRange(0, 3).Draw(t, "lag"))
				if l.infoLag > 0 {
					classes["getinfo-lags"] = true
				}
				l.mu.Unlock()
				ops = append(ops, fmt.Sprintf("lag(%d)", l.infoLag))
			case "reregister":
				// recovery registers again: while the first registration is still active this must not
				// lead to a second report; after it has reported, it is a new registration
				mu.Lock()
				if len(calls) >= allowed {
					allowed++
				}
				mu.Unlock()
				if mode == "confirmation" {
					w.AddWaitForConfirmationTx("swap1", txid, 0, start, 504, []byte{0x00, 0x20})
				} else {
					w.AddWaitForCsvTx("swap1", txid, 0, start, 1008, []byte{0x00, 0x20})
				}
				ops = append(ops, "reregister")
				classes["reregistered"] = true
			}
			l.settle()
		}
		// closure: lnd is reachable again, the swap registers once more (as a recovery or a late cancel
		// does) and the chain grows past every limit: a csv watch of an output on the best chain must
		// have reported by then
		l.mu.Lock()
		l.failReg, l.infoLag = 0, 0
		l.mu.Unlock()
		c.Broadcast(txid)
		c.Mine(1)
		l.pump()
		l.settle()
		mu.Lock()
		if len(calls) >= allowed {
			allowed++
		}
		mu.Unlock()
		if mode == "confirmation" {
			w.AddWaitForConfirmationTx("swap1", txid, 0, start, 504, []byte{0x00, 0x20})
		} else {
			w.AddWaitForCsvTx("swap1", txid, 0, start, 1008, []byte{0x00, 0x20})
		}
		l.settle()
		c.Mine(1010)
		l.pump()
		l.settle()
		// on a busy machine the watcher's goroutines may not have subscribed yet when the blocks were
		// announced: keep announcing what is due (each event goes out once per subscription) until the
		// report is there or a generous deadline passes
		for dl := time.Now().Add(8 * time.Second); time.Now().Before(dl); {
			mu.Lock()
			n := len(calls)
			mu.Unlock()
			if n > 0 {
				break
			}
			time.Sleep(3 * time.Millisecond)
			l.pump()
			l.settle()
		}
		desc := fmt.Sprintf("mode=%s start=%d ops=%v", mode, start, ops)
		mu.Lock()
		got := append([]cb{}, calls...)
		mu.Unlock()
		if len(got) == 0 {
			confs, tip := c.Depth(txid)
			col.Violation(t, "C20/lnd/"+mode+"-never-reported", "%s: the watched transaction is %d deep at tip %d, lnd is reachable and the swap registered again, but nothing was ever reported", desc, confs, tip)
			return
		}
		nConf, nCsv := 0, 0
		for _, k := range got {
			switch k.kind {
			case "confirmed":
				nConf++
				if k.err != nil {
					classes["failure-reported"] = true
					continue
				}
				if k.txHex != hex.EncodeToString([]byte(rawOf(txid))) {
					col.Violation(t, "C20/lnd/confirmed-other-tx", "%s: confirmation reported with transaction bytes that are not the watched transaction", desc)
					return
				}
				if !k.inBest || k.confs < 3 {
					col.Violation(t, "C20/lnd/confirmed-without-depth", "%s: confirmation reported while the transaction has %d confirmations on the best chain (tip %d, need 3)", desc, k.confs, k.tip)
					return
				}
				// the watcher must not hand a transaction to the payment path that is already half a csv deep
				// (the taker's own checks are anchored at its start height and cannot see how early the
				// maker got the transaction confirmed)
				if k.confs >= 504+k.lag {
					col.Violation(t, "C20/lnd/confirmed-beyond-safety-limit", "%s: confirmation reported for a transaction that is already %d blocks deep (limit 504, node view lags %d)", desc, k.confs, k.lag)
					return
				}
				if k.tip >= start+504 {
					classes["confirmed-after-window(state machine re-checks)"] = true
				}
			case "csv":
				nCsv++
				if mode == "csv" && k.confs < 1008 {
					col.Violation(t, "C20/lnd/csv-reported-early", "%s: csv maturity reported with %d confirmations at tip %d (need 1008)", desc, k.confs, k.tip)
					return
				}
				if mode == "confirmation" {
					classes["window-closed-reported-via-csv-callback"] = true
				}
			}
		}
		if mode == "csv" && nConf > 0 {
			col.Violation(t, "C20/lnd/confirmation-callback-for-csv-watch", "%s: a csv registration produced a confirmation report", desc)
			return
		}
		if nConf+nCsv > allowed {
			col.Violation(t, "C20/lnd/duplicate-callback", "%s: %d confirmation / %d csv reports for %d registrations", desc, nConf, nCsv, allowed)
			return
		}
		if nConf+nCsv > 0 {
			classes["reported"] = true
		}
		var cl []string
		for k := range classes {
			cl = append(cl, k)
		}
		nt := classes["reorg"] || classes["getinfo-lags"] || pre == "deep" || classes["reregistered"]
		col.Case(desc, nt, map[string]interface{}{"mode": mode, "ops": ops, "reports": len(got)}, append(cl, "mode:"+mode, "pre:"+pre)...)
	})
}
