package watchers

import (
	"context"
	"encoding/hex"
	"encoding/json"
	"errors"
	"fmt"
	"runtime"
	"strings"
	"sync"
	"testing"
	"time"

	"github.com/elementsproject/peerswap/swap"
	"github.com/elementsproject/peerswap/txwatcher"
	"pgregory.net/rapid"

	"verifharness/sim"
	"verifharness/stats"
)

// schedRPC is a txwatcher.BlockchainRpc over the simulated token chain whose
// calls are scheduling points: while armed, every call parks until the
// history releases it.
type schedRPC struct {
	w     *sim.World
	chain string

	mu       sync.Mutex
	armed    bool
	parked   []*parkedCall
	served   int
	failNext int // the next failNext calls fail (transient rpc error)
}

func (r *schedRPC) fail() bool {
	r.mu.Lock()
	defer r.mu.Unlock()
	if r.failNext > 0 {
		r.failNext--
		return true
	}
	return false
}

type parkedCall struct {
	name    string
	release chan struct{}
}

func (r *schedRPC) gate(name string) {
	r.mu.Lock()
	if !r.armed {
		r.served++
		r.mu.Unlock()
		return
	}
	pc := &parkedCall{name: name, release: make(chan struct{})}
	r.parked = append(r.parked, pc)
	r.mu.Unlock()
	<-pc.release
	r.mu.Lock()
	r.served++
	r.mu.Unlock()
}

func (r *schedRPC) parkedCount() int {
	r.mu.Lock()
	defer r.mu.Unlock()
	return len(r.parked)
}

func (r *schedRPC) releaseAt(i int) string {
	r.mu.Lock()
	pc := r.parked[i]
	r.parked = append(r.parked[:i], r.parked[i+1:]...)
	r.mu.Unlock()
	close(pc.release)
	return pc.name
}

func (r *schedRPC) disarm() {
	r.mu.Lock()
	r.armed = false
	ps := r.parked
	r.parked = nil
	r.mu.Unlock()
	for _, pc := range ps {
		close(pc.release)
	}
}

func (r *schedRPC) GetBlockHeight() (uint64, error) {
	r.gate("getblockcount")
	if r.fail() {
		return 0, errors.New("rpc: connection refused")
	}
	var h uint32
	r.w.Locked(func() { h = r.w.ChainOf(r.chain).Height })
	return uint64(h), nil
}

func (r *schedRPC) GetTxOut(txid string, vout uint32) (*txwatcher.TxOutResp, error) {
	r.gate("gettxout")
	if r.fail() {
		return nil, errors.New("rpc: connection refused")
	}
	var resp *txwatcher.TxOutResp
	r.w.Locked(func() {
		c := r.w.ChainOf(r.chain)
		tx := c.Txs[txid]
		if tx == nil || int(vout) >= len(tx.Outs) || tx.Outs[vout].SpentBy != "" {
			return
		}
		resp = &txwatcher.TxOutResp{BestBlockHash: fmt.Sprintf("h%d", c.Height), Confirmations: c.Confs(txid)}
	})
	return resp, nil
}

func (r *schedRPC) GetBlockHash(height uint32) (string, error) {
	r.gate("getblockhash")
	return fmt.Sprintf("h%d", height), nil
}

func (r *schedRPC) GetRawtransactionWithBlockHash(txId string, blockHash string) (string, error) {
	r.gate("getrawtransaction")
	var out string
	r.w.Locked(func() {
		if tx := r.w.ChainOf(r.chain).Txs[txId]; tx != nil && fmt.Sprintf("h%d", tx.Height) == blockHash {
			out = tx.Hex
		}
	})
	if out == "" {
		return "", errors.New("No such transaction found in the provided block")
	}
	return out, nil
}

// task is one concurrent entry-point invocation.
type task struct {
	name string
	done chan struct{}
}

func spawn(name string, f func()) *task {
	t := &task{name: name, done: make(chan struct{})}
	go func() {
		defer close(t.done)
		f()
	}()
	return t
}

func (t *task) finished() bool {
	select {
	case <-t.done:
		return true
	default:
		return false
	}
}

func goroutineDump() string {
	buf := make([]byte, 1<<20)
	n := runtime.Stack(buf, true)
	var keep []string
	for _, g := range strings.Split(string(buf[:n]), "\n\n") {
		if strings.Contains(g, "peerswap/swap.") || strings.Contains(g, "peerswap/txwatcher.") || strings.Contains(g, "peerswap/electrum.") {
			lines := strings.Split(g, "\n")
			if len(lines) > 14 {
				lines = lines[:14]
			}
			keep = append(keep, strings.Join(lines, "\n"))
		}
	}
	return strings.Join(keep, "\n\n")
}

const mtCancel, mtCoopClose, mtSwapOutRequest, mtSwapInAgreement, mtOpeningTx = 42079, 42081, 42071, 42073, 42077

func TestC18NoDeadlockRpcWatcher(t *testing.T) {
	col := stats.Get("C18.rpc")
	rapid.Check(t, func(t *rapid.T) {
		sim.CaseStart(t)
		w := sim.NewWorld()
		defer w.Close()
		a := w.AddNode("alice")
		m := w.AddNode("mallory")
		w.LN.AddChannel("300x3x0", a.Id, m.Id, 5_000_000_000, 5_000_000_000)
		chain := rapid.SampledFrom([]string{"btc", "lbtc"}).Draw(t, "chain")
		csv := uint32(1008)
		if chain == "lbtc" {
			csv = 10080
		}
		rpcs := map[string]*schedRPC{"btc": {w: w, chain: "btc"}, "lbtc": {w: w, chain: "lbtc"}}
		watchers := map[string]*txwatcher.BlockchainRpcTxWatcher{}
		ctx, cancel := context.WithCancel(context.Background())
		defer cancel()
		a.WalletFactory = func(p *sim.Proc, ch string) (swap.Wallet, swap.Validator, swap.TxWatcher) {
			tw := sim.NewTokenWallet(p, ch)
			req := uint32(3)
			if ch == "lbtc" {
				req = 2
			}
			wt := txwatcher.NewBlockchainRpcTxWatcher(ctx, rpcs[ch], req)
			watchers[ch] = wt
			return tw, tw, wt
		}
		if err := a.Boot(); err != nil {
			t.Fatal(err)
		}
		// alice becomes maker of a swap with the scripted taker mallory
		takerKey := sim.KeyFromName("c18-taker")
		takerPub := hex.EncodeToString(takerKey.PubKey().SerializeCompressed())
		asset, network := "", "regtest"
		if chain == "lbtc" {
			asset, network = sim.LbtcAsset, ""
		}
		var idb [32]byte
		copy(idb[:], rapid.SliceOfN(rapid.Byte(), 32, 32).Draw(t, "id"))
		id := hex.EncodeToString(idb[:])
		sid, _ := swap.ParseSwapIdFromString(id)
		viaRequest := rapid.Bool().Draw(t, "viaSwapOutRequest")
		if viaRequest {
			req, _ := json.Marshal(&swap.SwapOutRequestMessage{ProtocolVersion: 7, SwapId: sid, Asset: asset, Network: network, Scid: "300x3x0", Amount: 1_000_000, Pubkey: takerPub, PremiumLimit: 1 << 40})
			a.Deliver(m.Id, mtSwapOutRequest, req)
			for _, pr := range a.InvoicesMade {
				if inv := w.LN.Invoices[pr]; inv != nil && inv.Type == int(swap.INVOICE_FEE) {
					inv.Paid = true
					a.DeliverPayment(sim.Notif{Node: a.Name, SwapId: id, Type: swap.INVOICE_FEE, Payreq: pr})
				}
			}
		} else {
			var sm *swap.SwapStateMachine
			var err error
			w.Step(a, func() { sm, err = a.Svc.SwapIn(m.Id, chain, "300x3x0", a.Id, 1_000_000, 100_000) })
			if err != nil {
				t.Fatalf("SwapIn: %v", err)
			}
			id = sm.SwapId.String()
			sid = sm.SwapId
			agr, _ := json.Marshal(&swap.SwapInAgreementMessage{ProtocolVersion: 7, SwapId: sid, Pubkey: takerPub, Premium: 0})
			a.Deliver(m.Id, mtSwapInAgreement, agr)
		}
		if len(a.Openings) != 1 {
			t.Fatalf("harness: maker did not open\n%s", sim.LogDump())
		}
		// chain state relative to the csv when the adversarial events start
		rel := rapid.SampledFrom([]string{"not-yet", "one-short", "just-matured", "long-matured"}).Draw(t, "csvState")
		switch rel {
		case "not-yet":
			w.Mine(chain, 3)
		case "one-short":
			w.Mine(chain, csv-1)
		case "just-matured":
			w.Mine(chain, csv)
		case "long-matured":
			w.Mine(chain, csv+20)
		}
		rpc := rpcs[chain]
		wt := watchers[chain]
		rpc.mu.Lock()
		rpc.armed = true
		rpc.mu.Unlock()
		// the concurrent program
		mk := func(kind string) *task {
			switch kind {
			case "cancel":
				p, _ := json.Marshal(&swap.CancelMessage{SwapId: sid, Message: "bye"})
				return spawn(kind, func() { a.Deliver(m.Id, mtCancel, p) })
			case "coop-badkey":
				p, _ := json.Marshal(&swap.CoopCloseMessage{SwapId: sid, Message: "x", Privkey: strings.Repeat("11", 32)})
				return spawn(kind, func() { a.Deliver(m.Id, mtCoopClose, p) })
			case "coop-invalid":
				p := []byte(fmt.Sprintf(`{"swap_id":"%s","message":"x","privkey":"abcd"}`, id))
				return spawn(kind, func() { a.Deliver(m.Id, mtCoopClose, p) })
			case "new-block":
				return spawn(kind, func() {
					w.Mine(chain, 1)
					_ = wt.HandleCsvTx(uint64(w.Height(chain)))
				})
			case "handle-csv":
				return spawn(kind, func() { _ = wt.HandleCsvTx(uint64(w.Height(chain))) })
			case "list-swaps":
				return spawn(kind, func() { _, _ = a.Svc.ListSwaps(); _, _ = a.Svc.ListActiveSwaps() })
			}
			return nil
		}
		n := rapid.IntRange(2, 4).Draw(t, "tasks")
		var tasks []*task
		var prog []string
		for i := 0; i < n; i++ {
			k := rapid.SampledFrom([]string{"cancel", "coop-badkey", "coop-invalid", "new-block", "handle-csv", "handle-csv", "list-swaps"}).Draw(t, "task")
			prog = append(prog, k)
			tasks = append(tasks, mk(k))
			time.Sleep(200 * time.Microsecond) // let it run up to its first scheduling point
		}
		// schedule: release parked RPC calls in a generated order
		var sched []string
		idleSince := time.Now()
		deadlocked := false
		for {
			all := true
			for _, tk := range tasks {
				if !tk.finished() {
					all = false
				}
			}
			if all {
				break
			}
			if pc := rpc.parkedCount(); pc > 0 {
				i := 0
				if pc > 1 {
					i = rapid.IntRange(0, pc-1).Draw(t, "release")
				}
				if rapid.IntRange(0, 5).Draw(t, "mineBeforeRelease") == 0 {
					w.Mine(chain, 1)
					sched = append(sched, "mine")
				}
				sched = append(sched, rpc.releaseAt(i))
				time.Sleep(300 * time.Microsecond)
				idleSince = time.Now()
				continue
			}
			// nobody is parked at a scheduling point and somebody has not finished:
			// either still running or blocked on a lock
			if time.Since(idleSince) > 1500*time.Millisecond {
				deadlocked = true
				break
			}
			time.Sleep(500 * time.Microsecond)
		}
		desc := fmt.Sprintf("chain=%s viaRequest=%v csvState=%s program=%v schedule=%v", chain, viaRequest, rel, prog, sched)
		if deadlocked {
			var stuck []string
			for _, tk := range tasks {
				if !tk.finished() {
					stuck = append(stuck, tk.name)
				}
			}
			dump := goroutineDump()
			key := "C18/deadlock/rpc-watcher:abba-watcher-lock-vs-swap-mutex"
			if strings.Contains(dump, "AddWaitForCsvTx") && strings.Contains(dump, "OnCsvPassed") && !strings.Contains(dump, "HandleCsvTx") {
				key = "C18/deadlock/rpc-watcher:synchronous-csv-callback"
			}
			rpc.disarm()
			col.Violation(t, key, "%s: entry points %v never returned (no RPC call parked, no progress for 1.5s)\n%s", desc, stuck, dump)
			return
		}
		rpc.disarm()
		// AddWaitForCsvTx may have handed an already matured csv to a helper goroutine: let it finish
		waitUntil(func() bool { return isDone(findRec(a, id)) }, 300*time.Millisecond)
		// closure: the refund happens once the csv has matured and the watcher sees a block
		if rec := findRec(a, id); rec != nil && rec.Current != swap.State_ClaimedCoop && rec.Current != swap.State_ClaimedPreimage {
			for i := 0; i < 3 && !isDone(findRec(a, id)); i++ {
				w.Mine(chain, csv)
				done := spawn("closure", func() { _ = wt.HandleCsvTx(uint64(w.Height(chain))) })
				select {
				case <-done.done:
					waitUntil(func() bool { return isDone(findRec(a, id)) }, 500*time.Millisecond)
				case <-time.After(3 * time.Second):
					col.Violation(t, "C18/deadlock/rpc-watcher:closure", "%s: HandleCsvTx never returned in the closure\n%s", desc, goroutineDump())
					return
				}
			}
			rec = findRec(a, id)
			refunded := false
			for _, sp := range a.Spends {
				if sp.TxID != "" {
					refunded = true
				}
			}
			if rec.Current != swap.State_ClaimedCsv || !refunded {
				col.Violation(t, "C18/no-refund-after-late-cancel:"+string(rec.Current), "%s: after the csv matured the swap is in %s (refund on chain: %v)\n%s", desc, rec.Current, refunded, sim.LogDump())
				return
			}
		}
		nt := rel != "not-yet" || len(sched) > 3
		col.Case(desc, nt, map[string]interface{}{"chain": chain, "csv_state": rel, "program": prog, "schedule": sched}, "csv:"+rel)
	})
}

func findRec(n *sim.Node, id string) *swap.SwapStateMachine {
	for _, s := range n.Swaps() {
		if s.SwapId.String() == id {
			return s
		}
	}
	return nil
}

func isDone(r *swap.SwapStateMachine) bool {
	return r != nil && (r.Current == swap.State_ClaimedCsv || r.Current == swap.State_ClaimedCoop || r.Current == swap.State_ClaimedPreimage || r.Current == swap.State_SwapCanceled)
}

func waitUntil(cond func() bool, d time.Duration) bool {
	deadline := time.Now().Add(d)
	for time.Now().Before(deadline) {
		if cond() {
			return true
		}
		time.Sleep(300 * time.Microsecond)
	}
	return cond()
}
