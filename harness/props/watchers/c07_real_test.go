package watchers

import (
	"context"
	"encoding/hex"
	"encoding/json"
	"fmt"
	"strings"
	"testing"
	"time"

	"github.com/elementsproject/peerswap/swap"
	"github.com/elementsproject/peerswap/txwatcher"
	"pgregory.net/rapid"

	"verifharness/sim"
	"verifharness/stats"
)

// TestC07RefundWithRealRpcWatcher (below): the maker's csv refund over the REAL rpc tx watcher (the swapsim
// histories of C07 use the simulated watcher). A real SwapService is maker towards a scripted taker
// that never pays; around the block in which the csv matures short bursts of transient failures are
// injected (store write, wallet refund construction, watcher rpc) and the peer may cancel or send a
// useless coop_close. Once the failures stop, a few more blocks - without any restart - must see the
// refund accepted on chain and the swap in State_ClaimedCsv: the watcher has to keep reporting a
// matured csv until the swap took it.
type c07Fault struct {
	Call        string
	Count, Skip int
}

// c07Case is one generated scenario of the real-watcher refund check.
type c07Case struct {
	Chain        string
	Id           []byte
	ViaRequest   bool
	PeerMove     string // silent | cancel | coop-badkey
	PeerWhen     string // before-maturity | at-maturity | after-maturity
	Faults       []c07Fault
	BlocksDuring int
}

type c07Result struct {
	Refunded       bool
	Persisted, Mem string
	Ops            []string
	Log            string
}

func TestC07RefundWithRealRpcWatcher(t *testing.T) {
	col := stats.Get("C07.real-rpc-watcher")
	rapid.Check(t, func(t *rapid.T) {
		c := c07Case{
			Chain:      rapid.SampledFrom([]string{"btc", "lbtc"}).Draw(t, "chain"),
			Id:         rapid.SliceOfN(rapid.Byte(), 32, 32).Draw(t, "id"),
			ViaRequest: rapid.Bool().Draw(t, "viaSwapOutRequest"),
			PeerMove:   rapid.SampledFrom([]string{"silent", "silent", "cancel", "coop-badkey"}).Draw(t, "peerMove"),
			PeerWhen:   rapid.SampledFrom([]string{"before-maturity", "at-maturity", "after-maturity"}).Draw(t, "peerWhen"),
		}
		nf := rapid.IntRange(0, 3).Draw(t, "faults")
		faulted := map[string]bool{}
		for i := 0; i < nf; i++ {
			f := c07Fault{
				Call:  rapid.SampledFrom([]string{"store.UpdateData", "store.UpdateData", "wallet.CreateCsvSpendingTransaction", "rpc", "msg.Send"}).Draw(t, "faultCall"),
				Count: rapid.IntRange(1, 3).Draw(t, "faultCount"),
				Skip:  rapid.IntRange(0, 2).Draw(t, "faultSkip"),
			}
			faulted[f.Call] = true
			c.Faults = append(c.Faults, f)
		}
		c.BlocksDuring = rapid.IntRange(0, 2).Draw(t, "blocksDuringFaults")
		r, err := execC07Real(c)
		if err != nil {
			t.Fatalf("harness: %v", err)
		}
		desc := fmt.Sprintf("chain=%s viaRequest=%v peer=%s@%s ops=%v", c.Chain, c.ViaRequest, c.PeerMove, c.PeerWhen, r.Ops)
		// C07 is about the funds: the refund must have been accepted on chain. Whether the record also
		// reaches State_ClaimedCsv after a failed store write is C16's question (counted as a class here).
		if !r.Refunded {
			// root cause: did a failed store write strand the in-memory state machine in an action state
			// (it then accepts no further event until a restart - listed finding), or is the swap still
			// waiting for the csv in memory and nobody told it again?
			waiting := r.Mem == string(swap.State_WaitCsv) || r.Mem == string(swap.State_SwapInSender_AwaitClaimPayment) || r.Mem == string(swap.State_SwapOutReceiver_AwaitClaimInvoicePayment)
			key := "C07/real-rpc-watcher/matured-csv-not-acted-on:" + strings.TrimPrefix(r.Mem, "State_")
			if faulted["store.UpdateData"] && !waiting {
				key = "C07/real-rpc-watcher/stranded-after-failed-store-write:" + strings.TrimPrefix(r.Mem, "State_")
			}
			if col.Violation(t, key, "%s: the csv matured 6+ blocks ago, the claim invoice is unpaid and all failures stopped, but no refund was accepted on chain (persisted state %s, in-memory state %s)\n%s", desc, r.Persisted, r.Mem, r.Log) {
				return
			}
		}
		nt := nf > 0 || c.PeerMove != "silent"
		cl := []string{"peer:" + c.PeerMove}
		if r.Refunded && r.Persisted != string(swap.State_ClaimedCsv) {
			cl = append(cl, "refunded-but-record-not-ClaimedCsv")
		}
		for k := range faulted {
			cl = append(cl, "fault:"+k)
		}
		col.Case(desc, nt, map[string]interface{}{"chain": c.Chain, "via_request": c.ViaRequest, "ops": r.Ops}, cl...)
	})
}

// execC07Real runs one scenario against a real SwapService with the real rpc tx watcher.
func execC07Real(c c07Case) (*c07Result, error) {
	w := sim.NewWorld()
	defer w.Close()
	a := w.AddNode("alice")
	m := w.AddNode("mallory")
	w.LN.AddChannel("300x3x0", a.Id, m.Id, 5_000_000_000, 5_000_000_000)
	chain := c.Chain
	csv := uint32(1008)
	if chain == "lbtc" {
		csv = 10080
	}
	rpcs := map[string]*schedRPC{"btc": {w: w, chain: "btc"}, "lbtc": {w: w, chain: "lbtc"}}
	watchers := map[string]*txwatcher.BlockchainRpcTxWatcher{}
	ctx, cancel := context.WithCancel(context.Background())
	defer cancel()
	a.WalletFactory = func(p *sim.Proc, ch string) (swap.Wallet, swap.Validator, swap.TxWatcher) {
		tw := sim.NewTokenWallet(p, ch)
		req := uint32(3)
		if ch == "lbtc" {
			req = 2
		}
		wt := txwatcher.NewBlockchainRpcTxWatcher(ctx, rpcs[ch], req)
		watchers[ch] = wt
		return tw, tw, wt
	}
	if err := a.Boot(); err != nil {
		return nil, err
	}
	takerKey := sim.KeyFromName("c07-taker")
	takerPub := hex.EncodeToString(takerKey.PubKey().SerializeCompressed())
	asset, network := "", "regtest"
	if chain == "lbtc" {
		asset, network = sim.LbtcAsset, ""
	}
	id := hex.EncodeToString(c.Id)
	sid, _ := swap.ParseSwapIdFromString(id)
	if c.ViaRequest {
		req, _ := json.Marshal(&swap.SwapOutRequestMessage{ProtocolVersion: 7, SwapId: sid, Asset: asset, Network: network, Scid: "300x3x0", Amount: 1_000_000, Pubkey: takerPub, PremiumLimit: 1 << 40})
		a.Deliver(m.Id, mtSwapOutRequest, req)
		for _, pr := range a.InvoicesMade {
			if inv := w.LN.Invoices[pr]; inv != nil && inv.Type == int(swap.INVOICE_FEE) {
				inv.Paid = true
				a.DeliverPayment(sim.Notif{Node: a.Name, SwapId: id, Type: swap.INVOICE_FEE, Payreq: pr})
			}
		}
	} else {
		var sm *swap.SwapStateMachine
		var err error
		w.Step(a, func() { sm, err = a.Svc.SwapIn(m.Id, chain, "300x3x0", a.Id, 1_000_000, 100_000) })
		if err != nil {
			return nil, fmt.Errorf("SwapIn: %v", err)
		}
		id = sm.SwapId.String()
		sid = sm.SwapId
		agr, _ := json.Marshal(&swap.SwapInAgreementMessage{ProtocolVersion: 7, SwapId: sid, Pubkey: takerPub, Premium: 0})
		a.Deliver(m.Id, mtSwapInAgreement, agr)
	}
	if len(a.Openings) != 1 {
		return nil, fmt.Errorf("maker did not open\n%s", sim.LogDump())
	}
	var ops []string
	block := func(n uint32) {
		w.Mine(chain, n)
		var err error
		w.Step(a, func() { err = watchers[chain].HandleCsvTx(uint64(w.Height(chain))) })
		ops = append(ops, fmt.Sprintf("block(+%d)err=%v", n, err != nil))
	}
	peer := func(kind string) {
		switch kind {
		case "cancel":
			p, _ := json.Marshal(&swap.CancelMessage{SwapId: sid, Message: "bye"})
			a.Deliver(m.Id, mtCancel, p)
		case "coop-badkey":
			p, _ := json.Marshal(&swap.CoopCloseMessage{SwapId: sid, Message: "x", Privkey: strings.Repeat("11", 32)})
			a.Deliver(m.Id, mtCoopClose, p)
		}
		ops = append(ops, "peer:"+kind)
	}
	// up to one block short of maturity
	w.Mine(chain, csv-2)
	block(1)
	if c.PeerMove != "silent" && c.PeerWhen == "before-maturity" {
		peer(c.PeerMove)
	}
	// transient failures around the maturing block
	for _, f := range c.Faults {
		if f.Call == "rpc" {
			rpcs[chain].mu.Lock()
			rpcs[chain].failNext = f.Count
			rpcs[chain].mu.Unlock()
		} else {
			var q []sim.FaultKind
			for j := 0; j < f.Skip; j++ {
				q = append(q, sim.FaultNone)
			}
			for j := 0; j < f.Count; j++ {
				q = append(q, sim.FaultBefore)
			}
			a.Faults[f.Call] = q
		}
		ops = append(ops, fmt.Sprintf("fault(%s,skip=%d,n=%d)", f.Call, f.Skip, f.Count))
	}
	block(1) // the csv matures with this block
	if c.PeerMove != "silent" && c.PeerWhen == "at-maturity" {
		peer(c.PeerMove)
	}
	for i := 0; i < c.BlocksDuring; i++ {
		block(1)
	}
	if c.PeerMove != "silent" && c.PeerWhen == "after-maturity" {
		peer(c.PeerMove)
	}
	// the failures stop; no restart
	a.Faults = map[string][]sim.FaultKind{}
	rpcs[chain].mu.Lock()
	rpcs[chain].failNext = 0
	rpcs[chain].mu.Unlock()
	refunded := func() bool {
		ok := false
		w.Locked(func() {
			for _, sp := range a.Spends {
				if sp.TxID != "" && sp.Kind == "CsvSpendingTransaction" {
					ok = true
				}
			}
		})
		return ok
	}
	for i := 0; i < 6 && !refunded(); i++ {
		block(1)
		waitUntil(refunded, 20*time.Millisecond)
	}
	waitUntil(refunded, 200*time.Millisecond)
	res := &c07Result{Refunded: refunded(), Persisted: "none", Mem: "none", Ops: ops}
	if rec := findRec(a, id); rec != nil {
		res.Persisted = string(rec.Current)
	}
	if sm, err := a.Svc.GetActiveSwap(id); err == nil && sm != nil {
		res.Mem = string(sm.Current)
	}
	if !res.Refunded {
		res.Log = tailLog(40)
	}
	return res, nil
}

// TestProbeC07StoreWriteStrandsSwap replays the saved scenario of the listed finding
// C07-store-write-failure-strands-swap.
func TestProbeC07StoreWriteStrandsSwap(t *testing.T) {
	id := make([]byte, 32)
	id[31] = 7
	r, err := execC07Real(c07Case{Chain: "btc", Id: id, ViaRequest: false, PeerMove: "silent", PeerWhen: "at-maturity",
		Faults: []c07Fault{{Call: "wallet.CreateCsvSpendingTransaction", Count: 2}, {Call: "store.UpdateData", Count: 1, Skip: 1}}, BlocksDuring: 1})
	rep := err == nil && !r.Refunded
	st := "gone"
	if rep {
		st = "reproduces"
	}
	detail := ""
	if r != nil {
		detail = fmt.Sprintf("(refunded=%v persisted=%s in-memory=%s)", r.Refunded, r.Persisted, r.Mem)
	}
	fmt.Printf("PROBE[C07-store-write-failure-strands-swap] %s %s\n", st, detail)
}

func tailLog(n int) string {
	l := strings.Split(sim.LogDump(), "\n")
	if len(l) > n {
		l = l[len(l)-n:]
	}
	return strings.Join(l, "\n")
}
