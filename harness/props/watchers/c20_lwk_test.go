package watchers

import (
	"context"
	"encoding/hex"
	"fmt"
	"sync"
	"testing"
	"time"

	"github.com/btcsuite/btcd/chaincfg/chainhash"
	goelectrum "github.com/checksum0/go-electrum/electrum"
	"github.com/elementsproject/peerswap/lwk"
	"pgregory.net/rapid"

	"verifharness/stats"
)

type lwkFake struct {
	electrumFake
	hmu     sync.Mutex
	headers chan *goelectrum.SubscribeHeadersResult
	subs    int
}

func (l *lwkFake) SubscribeHeaders(ctx context.Context) (<-chan *goelectrum.SubscribeHeadersResult, error) {
	l.hmu.Lock()
	defer l.hmu.Unlock()
	l.subs++
	return l.headers, nil
}

func (l *lwkFake) cur() chan *goelectrum.SubscribeHeadersResult {
	l.hmu.Lock()
	defer l.hmu.Unlock()
	return l.headers
}

// TestC20LwkWatcher drives the complete LWK/Electrum watcher (header subscription,
// monotonic height filter, subscriber, observers) over the reorg chain.
func TestC20LwkWatcher(t *testing.T) {
	col := stats.Get("C20.lwk")
	rapid.Check(t, func(t *rapid.T) {
		c := newRchain(2_000_000)
		txid := "ff44"
		c.tracked = txid
		var txHash chainhash.Hash
		copy(txHash[:], []byte("fedcba9876543210fedcba9876543210"))
		fake := &lwkFake{electrumFake: electrumFake{c: c, txids: map[string]string{txHash.String(): txid}}, headers: make(chan *goelectrum.SubscribeHeadersResult)}
		w, err := lwk.NewElectrumTxWatcher(fake)
		if err != nil {
			t.Fatal(err)
		}
		resub := make(chan time.Time)
		w.VerifSetResubscribeChan(resub)
		window := uint32(60)
		var recs []cbRecord
		obsStart := 0
		var start uint32
		w.AddConfirmationCallback(func(swapId string, txHex string, err error) error {
			confs, tip := c.Depth(txid)
			r := cbRecord{kind: "confirmed", rawTx: txHex, confs: confs, tip: tip}
			for _, sn := range c.SnapsSince(obsStart) {
				inWin := uint64(sn.tip) >= uint64(start) && uint64(sn.tip) < uint64(start)+uint64(window)
				if err == nil && sn.confs >= 2 && inWin {
					r.confs, r.tip, r.window = sn.confs, sn.tip, true
					break
				}
				if err != nil && inWin {
					r.window = true
				}
			}
			if err != nil {
				r.kind, r.err = "failed", err.Error()
			}
			recs = append(recs, r)
			return nil
		})
		w.AddCsvCallback(func(string) error { return nil })
		// initial header, then StartWatchingTxs returns and the loop runs
		_, tip := c.Depth(txid)
		started := make(chan error, 1)
		go func() { started <- w.StartWatchingTxs() }()
		fake.headers <- &goelectrum.SubscribeHeadersResult{Height: int32(tip)}
		if err := <-started; err != nil {
			t.Fatalf("StartWatchingTxs: %v", err)
		}
		start = tip
		swapId := hex.EncodeToString(make([]byte, 32))
		w.AddWaitForConfirmationTx(swapId, txHash.String(), 0, start, window, append([]byte{0x00, 0x20}, make([]byte, 32)...))
		var ops []string
		classes := map[string]bool{}
		alive := true
		maxTip, regressed := uint32(0), ""
		send := func(h int32) {
			if !alive {
				return
			}
			obsStart = c.SnapCount()
			if h > 0 {
				c.NoteNotification(uint32(h))
			}
			hdr := &goelectrum.SubscribeHeadersResult{Height: h}
			select {
			case fake.cur() <- hdr:
			case <-time.After(time.Second):
				alive = false
				return
			}
			// a second copy is taken only after the first one was fully processed
			select {
			case fake.cur() <- hdr:
			case <-time.After(time.Second):
				alive = false // the watcher stopped itself (fail-safe on invalid heights)
			}
			ops = append(ops, fmt.Sprintf("header(%d)", h))
			// the tip the watcher reports (used by the payment-window checks) never goes backwards
			if got, gerr := w.GetBlockHeight(); gerr == nil {
				if got < maxTip {
					regressed = fmt.Sprintf("after header(%d) the watcher's tip is %d, it was %d before", h, got, maxTip)
				} else {
					maxTip = got
				}
			}
		}
		steps := rapid.IntRange(1, 12).Draw(t, "steps")
		for i := 0; i < steps; i++ {
			op := rapid.SampledFrom([]string{"mine", "mine", "broadcast", "header", "header", "header-stale", "reorg", "rpc-error", "resubscribe"}).Draw(t, "op")
			switch op {
			case "mine":
				n := rapid.SampledFrom([]uint32{1, 1, 2, 3, 10, window - 3, window}).Draw(t, "n")
				c.Mine(n)
				ops = append(ops, fmt.Sprintf("mine(%d)", n))
			case "broadcast":
				c.Broadcast(txid)
				ops = append(ops, "broadcast")
			case "reorg":
				d := rapid.IntRange(1, 3).Draw(t, "depth")
				fate := rapid.SampledFrom([]string{"remine", "mempool", "drop"}).Draw(t, "fate")
				c.Reorg(d, uint32(rapid.IntRange(0, 1).Draw(t, "extra")), fate)
				ops = append(ops, fmt.Sprintf("reorg(%d,%s)", d, fate))
				classes["reorg"] = true
			case "rpc-error":
				c.mu.Lock()
				c.errPlan = make([]bool, c.calls+2)
				c.errPlan[c.calls] = true
				c.mu.Unlock()
				classes["rpc-error"] = true
			case "resubscribe":
				// the periodic re-subscription; the (load-balanced) backend it lands on may lag behind
				if !alive {
					break
				}
				fake.hmu.Lock()
				fake.headers = make(chan *goelectrum.SubscribeHeadersResult)
				before := fake.subs
				fake.hmu.Unlock()
				select {
				case resub <- time.Now():
				case <-time.After(time.Second):
					alive = false
				}
				waitUntil(func() bool { fake.hmu.Lock(); defer fake.hmu.Unlock(); return fake.subs > before }, time.Second)
				_, tp := c.Depth(txid)
				lag := int32(rapid.SampledFrom([]int{0, 0, 1, 5, 70}).Draw(t, "backendLag"))
				classes["resubscribed"] = true
				if lag > 0 {
					classes["stale-notification"] = true
				}
				ops = append(ops, fmt.Sprintf("resubscribe(lag=%d)", lag))
				send(int32(tp) - lag)
			case "header":
				_, tp := c.Depth(txid)
				send(int32(tp))
			case "header-stale":
				_, tp := c.Depth(txid)
				send(int32(tp) - int32(rapid.IntRange(1, 4).Draw(t, "lag")))
				classes["stale-notification"] = true
			}
		}
		c.mu.Lock()
		c.errPlan, c.minePlan = nil, nil
		c.mu.Unlock()
		for k := 0; k < 2; k++ {
			c.Mine(1)
			_, tp := c.Depth(txid)
			send(int32(tp))
		}
		close(fake.cur())
		desc := fmt.Sprintf("start=%d ops=%v", start, ops)
		if regressed != "" {
			col.Violation(t, "C20/lwk/tip-regressed", "%s: %s", desc, regressed)
			return
		}
		if len(recs) > 1 {
			col.Violation(t, "C20/lwk/duplicate-callback", "%s: %d terminal callbacks", desc, len(recs))
			return
		}
		confs, tipNow := c.Depth(txid)
		open := uint64(tipNow) < uint64(start)+uint64(window)
		if len(recs) == 1 {
			r := recs[0]
			classes["callback:"+r.kind] = true
			if r.kind == "confirmed" && (r.confs < 2 || !r.window || r.rawTx != rawOf(txid)) {
				col.Violation(t, "C20/lwk/false-confirmation", "%s: reported confirmed: %+v", desc, r)
				return
			}
			// a failure is for a window that has closed - not for one that is still open on the real chain
			if r.kind == "failed" && uint64(r.tip) < uint64(start)+uint64(window) {
				col.Violation(t, "C20/lwk/failure-while-window-open", "%s: failure %q reported at tip %d, the window [%d,%d) is still open", desc, r.err, r.tip, start, uint64(start)+uint64(window))
				return
			}
		} else if alive {
			if !open {
				col.Violation(t, "C20/lwk/no-failure-after-window", "%s: window closed at tip %d, nothing reported", desc, tipNow)
				return
			}
			if confs >= 2 {
				col.Violation(t, "C20/lwk/confirmation-missed", "%s: %d confirmations at %d, nothing reported", desc, confs, tipNow)
				return
			}
		}
		var cl []string
		nt := false
		for k := range classes {
			cl = append(cl, k)
			if k == "reorg" || k == "stale-notification" {
				nt = true
			}
		}
		col.Case(desc, nt, map[string]interface{}{"start": start, "ops": ops, "callbacks": recs}, cl...)
	})
}
