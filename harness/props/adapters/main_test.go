package adapters

import (
	"io"
	"log"
	"os"
	"testing"

	pslog "github.com/elementsproject/peerswap/log"

	"verifharness/stats"
)

type nopLogger struct{}

func (nopLogger) Infof(string, ...any)  {}
func (nopLogger) Debugf(string, ...any) {}

func TestMain(m *testing.M) {
	log.SetOutput(io.Discard)
	pslog.SetLogger(nopLogger{})
	code := m.Run()
	stats.Flush()
	os.Exit(code)
}
