package adapters

import (
	"context"
	"encoding/hex"
	"fmt"
	"io"
	"sync"
	"testing"
	"time"

	"github.com/elementsproject/peerswap/lnd"
	"github.com/elementsproject/peerswap/swap"
	"github.com/lightningnetwork/lnd/lnrpc"
	"github.com/lightningnetwork/lnd/lnrpc/invoicesrpc"
	"google.golang.org/grpc"
	"pgregory.net/rapid"

	"verifharness/stats"
)

// fakeInvoices is the invoicesrpc.InvoicesClient the LND payment watcher subscribes with: one stream per
// SubscribeSingleInvoice call; the test pushes invoice states into the streams of a payment hash. As in
// lnd, a new subscription first hears the invoice's current state.
type fakeInvoices struct {
	invoicesrpc.InvoicesClient
	mu      sync.Mutex
	state   map[string]lnrpc.Invoice_InvoiceState // by r_hash hex
	streams map[string][]*invStream
	failSub int // the next failSub subscriptions fail
}

type invStream struct {
	grpc.ClientStream
	ctx context.Context
	ch  chan *lnrpc.Invoice
	end chan error
}

func (s *invStream) Recv() (*lnrpc.Invoice, error) {
	select {
	case inv := <-s.ch:
		return inv, nil
	case err := <-s.end:
		return nil, err
	case <-s.ctx.Done():
		return nil, s.ctx.Err()
	}
}

func (f *fakeInvoices) SubscribeSingleInvoice(ctx context.Context, in *invoicesrpc.SubscribeSingleInvoiceRequest, _ ...grpc.CallOption) (invoicesrpc.Invoices_SubscribeSingleInvoiceClient, error) {
	f.mu.Lock()
	defer f.mu.Unlock()
	if f.failSub > 0 {
		f.failSub--
		return nil, fmt.Errorf("rpc error: lnd is shutting down")
	}
	h := hex.EncodeToString(in.RHash)
	st := &invStream{ctx: ctx, ch: make(chan *lnrpc.Invoice, 8), end: make(chan error, 1)}
	f.streams[h] = append(f.streams[h], st)
	st.ch <- &lnrpc.Invoice{State: f.state[h]}
	return st, nil
}

func (f *fakeInvoices) push(hash string, s lnrpc.Invoice_InvoiceState) {
	f.mu.Lock()
	defer f.mu.Unlock()
	f.state[hash] = s
	for _, st := range f.streams[hash] {
		select {
		case st.ch <- &lnrpc.Invoice{State: s}:
		default:
		}
	}
}

func (f *fakeInvoices) closeStreams(hash string, err error) {
	f.mu.Lock()
	defer f.mu.Unlock()
	for _, st := range f.streams[hash] {
		select {
		case st.end <- err:
		default:
		}
	}
	f.streams[hash] = nil
}

// TestC18LndPaymentWatcher: the LND payment watcher is called by AddPaymentNotifier while the caller holds
// its swap's mutex (and, on LND, on the one goroutine that delivers peer messages). Generated sequences of
// registrations (the same invoice twice: a maker that enters AwaitCsv after a cancel registers its claim
// invoice again), settlements, cancellations and broken streams: every registration call returns, and
// every invoice that settles while a registration for it is alive is reported - once per registration,
// with the swap and invoice type it was registered with.
func TestC18LndPaymentWatcher(t *testing.T) {
	col := stats.Get("C18.lnd-payment-watcher")
	rapid.Check(t, func(t *rapid.T) {
		nInv := rapid.IntRange(1, 3).Draw(t, "invoices")
		fl := &fakeLnd{edges: map[uint64]*lnrpc.ChannelEdge{}, invoices: map[string]*lnrpc.PayReq{}}
		fi := &fakeInvoices{state: map[string]lnrpc.Invoice_InvoiceState{}, streams: map[string][]*invStream{}}
		type invoice struct {
			payreq, hash, swapId string
			typ                  swap.InvoiceType
			alive                int // live registrations (subscriptions) in the model
			settled, ended       bool
		}
		var invs []*invoice
		for i := 0; i < nInv; i++ {
			iv := &invoice{payreq: fmt.Sprintf("lnbcrt1inv%d", i), hash: fmt.Sprintf("%064x", 0xa0+i), swapId: fmt.Sprintf("swap-%d", i),
				typ: rapid.SampledFrom([]swap.InvoiceType{swap.INVOICE_CLAIM, swap.INVOICE_FEE}).Draw(t, "type")}
			fl.invoices[iv.payreq] = &lnrpc.PayReq{PaymentHash: iv.hash, NumSatoshis: 1000}
			fi.state[iv.hash] = lnrpc.Invoice_OPEN
			invs = append(invs, iv)
		}
		ctx, cancel := context.WithCancel(context.Background())
		defer cancel()
		pw := lnd.VerifNewPaymentWatcher(ctx, fl, fi)
		var mu sync.Mutex
		got := map[string]int{}
		var wrong []string
		pw.AddPaymentCallback(func(swapId string, typ swap.InvoiceType) {
			mu.Lock()
			defer mu.Unlock()
			got[swapId]++
			for _, iv := range invs {
				if iv.swapId == swapId && iv.typ != typ {
					wrong = append(wrong, fmt.Sprintf("%s reported as %v, registered as %v", swapId, typ, iv.typ))
				}
			}
		})
		want := map[string]int{}
		var ops []string
		reports := func(id string) int { mu.Lock(); defer mu.Unlock(); return got[id] }
		steps := rapid.IntRange(2, 10).Draw(t, "steps")
		doubled := false
		for i := 0; i < steps; i++ {
			iv := invs[rapid.IntRange(0, nInv-1).Draw(t, "inv")]
			op := rapid.SampledFrom([]string{"register", "register", "register", "settle", "cancel", "stream-breaks", "subscribe-fails"}).Draw(t, "op")
			ops = append(ops, op+"("+iv.swapId+")")
			switch op {
			case "register":
				fi.mu.Lock()
				before := len(fi.streams[iv.hash])
				fi.mu.Unlock()
				done := make(chan struct{})
				go func() { defer close(done); pw.AddWaitForPayment(iv.swapId, iv.payreq, iv.typ) }()
				select {
				case <-done:
				case <-time.After(5 * time.Second):
					col.Violation(t, "C18/lnd-payment-watcher/registration-never-returned", "ops %v: AddWaitForPayment(%s) did not return", ops, iv.swapId)
					return
				}
				if iv.alive > 0 {
					doubled = true // the watcher keeps the one subscription it has
				} else {
					// a new subscription hears the current state at once
					fi.mu.Lock()
					n := len(fi.streams[iv.hash])
					fi.mu.Unlock()
					if n > before {
						iv.alive = 1
						if iv.settled {
							want[iv.swapId]++
							iv.alive = 0
						} else if iv.ended {
							iv.alive = 0
						}
					}
				}
			case "settle":
				if iv.ended {
					continue
				}
				iv.settled = true
				fi.push(iv.hash, lnrpc.Invoice_SETTLED)
				if iv.alive > 0 {
					want[iv.swapId]++
					iv.alive = 0
				}
			case "cancel":
				if iv.settled {
					continue
				}
				iv.ended = true
				fi.push(iv.hash, lnrpc.Invoice_CANCELED)
				iv.alive = 0
			case "stream-breaks":
				fi.closeStreams(iv.hash, io.EOF)
				iv.alive = 0
			case "subscribe-fails":
				fi.mu.Lock()
				fi.failSub = 1
				fi.mu.Unlock()
			}
			// the watcher's goroutines settle: reports arrive, finished subscriptions are forgotten
			id := iv.swapId
			waitFor(func() bool { return reports(id) >= want[id] }, 2*time.Second)
			time.Sleep(2 * time.Millisecond)
			if op == "register" {
				fi.mu.Lock()
				fi.failSub = 0
				fi.mu.Unlock()
			}
		}
		mu.Lock()
		defer mu.Unlock()
		if len(wrong) > 0 {
			col.Violation(t, "C18/lnd-payment-watcher/wrong-invoice-type", "ops %v: %v", ops, wrong)
			return
		}
		for _, iv := range invs {
			if got[iv.swapId] < want[iv.swapId] {
				col.Violation(t, "C18/lnd-payment-watcher/settled-invoice-not-reported", "ops %v: invoice of %s settled with a live registration %d time(s), reported %d time(s)", ops, iv.swapId, want[iv.swapId], got[iv.swapId])
				return
			}
			if got[iv.swapId] > want[iv.swapId] {
				col.Violation(t, "C18/lnd-payment-watcher/reported-more-than-registered", "ops %v: invoice of %s reported %d time(s), %d expected", ops, iv.swapId, got[iv.swapId], want[iv.swapId])
				return
			}
		}
		col.Case(fmt.Sprint(ops), doubled, ops, fmt.Sprintf("double-registration:%v", doubled))
	})
}

func waitFor(cond func() bool, d time.Duration) bool {
	dl := time.Now().Add(d)
	for time.Now().Before(dl) {
		if cond() {
			return true
		}
		time.Sleep(300 * time.Microsecond)
	}
	return cond()
}
