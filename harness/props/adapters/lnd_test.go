package adapters

import (
	"context"
	"encoding/base64"
	"errors"
	"fmt"
	"math/big"
	"strings"
	"sync"
	"testing"

	"github.com/elementsproject/peerswap/lnd"
	"github.com/lightningnetwork/lnd/lnrpc"
	"github.com/lightningnetwork/lnd/lnrpc/routerrpc"
	"github.com/lightningnetwork/lnd/lnwire"
	"google.golang.org/grpc"
	"google.golang.org/grpc/codes"
	"google.golang.org/grpc/status"
	"pgregory.net/rapid"

	"verifharness/stats"
)

const selfPub = "02" + "aa" + "0000000000000000000000000000000000000000000000000000000000000a"

// fakeLnd is the lnrpc.LightningClient the adapter talks to.
type fakeLnd struct {
	lnrpc.LightningClient
	mu       sync.Mutex
	channels []*lnrpc.Channel
	peers    []string
	edges    map[uint64]*lnrpc.ChannelEdge
	invoices map[string]*lnrpc.PayReq
	// addInvoiceErr makes AddInvoice fail
	addInvoiceErr error
}

func (f *fakeLnd) ListChannels(_ context.Context, in *lnrpc.ListChannelsRequest, _ ...grpc.CallOption) (*lnrpc.ListChannelsResponse, error) {
	f.mu.Lock()
	defer f.mu.Unlock()
	var out []*lnrpc.Channel
	for _, c := range f.channels {
		if in.ActiveOnly && !c.Active {
			continue
		}
		out = append(out, c)
	}
	return &lnrpc.ListChannelsResponse{Channels: out}, nil
}

func (f *fakeLnd) ListPeers(context.Context, *lnrpc.ListPeersRequest, ...grpc.CallOption) (*lnrpc.ListPeersResponse, error) {
	f.mu.Lock()
	defer f.mu.Unlock()
	r := &lnrpc.ListPeersResponse{}
	for _, p := range f.peers {
		r.Peers = append(r.Peers, &lnrpc.Peer{PubKey: p})
	}
	return r, nil
}

func (f *fakeLnd) GetChanInfo(_ context.Context, in *lnrpc.ChanInfoRequest, _ ...grpc.CallOption) (*lnrpc.ChannelEdge, error) {
	f.mu.Lock()
	defer f.mu.Unlock()
	if e, ok := f.edges[in.ChanId]; ok {
		return e, nil
	}
	return nil, status.Error(codes.NotFound, "edge not found")
}

func (f *fakeLnd) DecodePayReq(_ context.Context, in *lnrpc.PayReqString, _ ...grpc.CallOption) (*lnrpc.PayReq, error) {
	f.mu.Lock()
	defer f.mu.Unlock()
	if p, ok := f.invoices[in.PayReq]; ok {
		return p, nil
	}
	return nil, errors.New("invalid payment request")
}

// TestC11LndChannelAmounts: what the LND adapter tells the admission checks a channel can carry.
// Generated channels (balances, both sides' reserves, optional max-htlc policy, active / connected or not,
// either spelling of the channel id); model in big integers: spendable = max(0, local balance - own
// reserve) sat, receivable = max(0, remote balance - the peer's reserve) sat, each capped by the
// respective max_htlc_msat when the graph knows it; an inactive channel or a disconnected peer is an error.
func TestC11LndChannelAmounts(t *testing.T) {
	col := stats.Get("C11.lnd-channel-amounts")
	rapid.Check(t, func(t *rapid.T) {
		peer := "03" + strings.Repeat("bb", 32)
		blk, txi, out := uint32(rapid.IntRange(1, 900000).Draw(t, "blk")), uint32(rapid.IntRange(0, 3000).Draw(t, "txi")), uint16(rapid.IntRange(0, 5).Draw(t, "out"))
		scid := lnwire.ShortChannelID{BlockHeight: blk, TxIndex: txi, TxPosition: out}
		capacity := rapid.Int64Range(20_000, 20_000_000).Draw(t, "capacity")
		local := rapid.OneOf(rapid.Int64Range(0, capacity), rapid.SampledFrom([]int64{0, 1, 100, capacity})).Draw(t, "local")
		remote := capacity - local
		resLocal := uint64(rapid.OneOf(rapid.Int64Range(0, capacity/10), rapid.SampledFrom([]int64{0, 354, capacity / 100})).Draw(t, "ownReserve"))
		resRemote := uint64(rapid.OneOf(rapid.Int64Range(0, capacity/10), rapid.SampledFrom([]int64{0, 354, capacity / 100, capacity / 5})).Draw(t, "peerReserve"))
		active := rapid.IntRange(0, 6).Draw(t, "inactive") != 0
		connected := rapid.IntRange(0, 6).Draw(t, "disconnected") != 0
		ch := &lnrpc.Channel{Active: active, RemotePubkey: peer, ChanId: scid.ToUint64(), Capacity: capacity, LocalBalance: local, RemoteBalance: remote,
			LocalConstraints: &lnrpc.ChannelConstraints{ChanReserveSat: resLocal}, RemoteConstraints: &lnrpc.ChannelConstraints{ChanReserveSat: resRemote}}
		f := &fakeLnd{channels: []*lnrpc.Channel{ch}, edges: map[uint64]*lnrpc.ChannelEdge{}}
		if connected {
			f.peers = []string{peer}
		}
		var maxOwn, maxPeer uint64
		if rapid.Bool().Draw(t, "graphKnowsChannel") {
			maxOwn = rapid.SampledFrom([]uint64{0, 1_000_000, uint64(capacity) * 990, uint64(capacity) * 1000}).Draw(t, "ownMaxHtlc")
			maxPeer = rapid.SampledFrom([]uint64{0, 1_000_000, uint64(capacity) * 990, uint64(capacity) * 1000}).Draw(t, "peerMaxHtlc")
			e := &lnrpc.ChannelEdge{ChannelId: ch.ChanId, Node1Pub: selfPub, Node2Pub: peer, Node1Policy: &lnrpc.RoutingPolicy{MaxHtlcMsat: maxOwn}, Node2Policy: &lnrpc.RoutingPolicy{MaxHtlcMsat: maxPeer}}
			if rapid.Bool().Draw(t, "weAreNode2") {
				e.Node1Pub, e.Node2Pub, e.Node1Policy, e.Node2Policy = peer, selfPub, e.Node2Policy, e.Node1Policy
			}
			f.edges[ch.ChanId] = e
		}
		cl := lnd.VerifNewClient(context.Background(), f, nil, nil, nil)
		cl.VerifSetPubkey(selfPub)
		sep := rapid.SampledFrom([]string{"x", ":"}).Draw(t, "sep")
		id := fmt.Sprintf("%d%s%d%s%d", blk, sep, txi, sep, out)
		model := func(balance int64, reserve, maxHtlc uint64) *big.Int {
			v := new(big.Int).Sub(big.NewInt(balance), new(big.Int).SetUint64(reserve))
			if v.Sign() < 0 {
				v = big.NewInt(0)
			}
			v.Mul(v, big.NewInt(1000))
			if m := new(big.Int).SetUint64(maxHtlc); maxHtlc != 0 && m.Cmp(v) < 0 {
				v = m
			}
			return v
		}
		desc := fmt.Sprintf("scid=%s local=%d remote=%d ownReserve=%d peerReserve=%d active=%v connected=%v maxHtlc=%d/%d", id, local, remote, resLocal, resRemote, active, connected, maxOwn, maxPeer)
		for _, dir := range []string{"spendable", "receivable"} {
			var got uint64
			var err error
			var want *big.Int
			if dir == "spendable" {
				got, err = cl.SpendableMsat(id)
				want = model(local, resLocal, maxOwn)
			} else {
				got, err = cl.ReceivableMsat(id)
				want = model(remote, resRemote, maxPeer)
			}
			if !active || !connected {
				if err == nil {
					t.Fatalf("VKEY[C11/lnd-adapter/unusable-channel-reported:%s] %s: %s = %d for a channel that cannot be used", dir, desc, dir, got)
				}
				continue
			}
			if err != nil {
				t.Fatalf("VKEY[C11/lnd-adapter/error:%s] %s: %v", dir, desc, err)
			}
			if new(big.Int).SetUint64(got).Cmp(want) != 0 {
				t.Fatalf("VKEY[C11/lnd-adapter/%s-differs] %s: adapter says %d msat, the channel can carry %s msat", dir, desc, got, want)
			}
		}
		nt := local < int64(resLocal) || remote < int64(resRemote) || maxOwn != 0 || resLocal != resRemote
		col.Case(desc, nt, map[string]interface{}{"local": local, "remote": remote, "own_reserve": resLocal, "peer_reserve": resRemote}, fmt.Sprintf("below-own-reserve:%v", local < int64(resLocal)), fmt.Sprintf("below-peer-reserve:%v", remote < int64(resRemote)))
	})
}

// ---- payments ----

type payStep struct {
	status lnrpc.Payment_PaymentStatus
	err    error
	// heldLong: the HTLC stays in flight for longer than any finite deadline before the next update
	heldLong bool
}

type fakeRouter struct {
	routerrpc.RouterClient
	mu        sync.Mutex
	plan      []payStep
	preimage  string
	sendReqs  []*routerrpc.SendPaymentRequest
	trackReqs []*routerrpc.TrackPaymentRequest
	trackPlan []payStep
	inFlight  bool
}

type payStream struct {
	grpc.ClientStream
	ctx   context.Context
	r     *fakeRouter
	plan  *[]payStep
	track bool
	// noInflight: the request asked lnd to report the final state only (no_inflight_updates)
	noInflight bool
}

func (s *payStream) Recv() (*lnrpc.Payment, error) {
	s.r.mu.Lock()
	defer s.r.mu.Unlock()
	if len(*s.plan) == 0 {
		return nil, status.Error(codes.Unavailable, "stream closed")
	}
	st := (*s.plan)[0]
	*s.plan = (*s.plan)[1:]
	for s.noInflight && st.status == lnrpc.Payment_IN_FLIGHT && st.err == nil && !st.heldLong {
		// lnd keeps in-flight updates to itself; the stream waits for the next one
		s.r.inFlight = true
		if len(*s.plan) == 0 {
			return nil, status.Error(codes.Unavailable, "stream closed")
		}
		st = (*s.plan)[0]
		*s.plan = (*s.plan)[1:]
	}
	if st.heldLong {
		if _, ok := s.ctx.Deadline(); ok {
			// the caller's deadline passes while the HTLC is still out
			return nil, status.Error(codes.DeadlineExceeded, "context deadline exceeded")
		}
	}
	if st.err != nil {
		return nil, st.err
	}
	p := &lnrpc.Payment{Status: st.status}
	switch st.status {
	case lnrpc.Payment_IN_FLIGHT:
		s.r.inFlight = true
	case lnrpc.Payment_SUCCEEDED:
		s.r.inFlight = false
		p.PaymentPreimage = s.r.preimage
	case lnrpc.Payment_FAILED:
		s.r.inFlight = false
		p.FailureReason = lnrpc.PaymentFailureReason_FAILURE_REASON_NO_ROUTE
	}
	return p, nil
}

func (r *fakeRouter) SendPaymentV2(ctx context.Context, in *routerrpc.SendPaymentRequest, _ ...grpc.CallOption) (routerrpc.Router_SendPaymentV2Client, error) {
	r.mu.Lock()
	r.sendReqs = append(r.sendReqs, in)
	r.mu.Unlock()
	return &payStream{ctx: ctx, r: r, plan: &r.plan, noInflight: in.NoInflightUpdates}, nil
}

func (r *fakeRouter) TrackPaymentV2(ctx context.Context, in *routerrpc.TrackPaymentRequest, _ ...grpc.CallOption) (routerrpc.Router_TrackPaymentV2Client, error) {
	r.mu.Lock()
	r.trackReqs = append(r.trackReqs, in)
	r.mu.Unlock()
	return &payStream{ctx: ctx, r: r, plan: &r.trackPlan, track: true, noInflight: in.NoInflightUpdates}, nil
}

// TestC06LndPaymentAdapter: the LND adapter reports a claim payment as failed only when lnd said so (or
// the rpc stream itself broke) and as succeeded only with the preimage of a settled payment - however long
// the HTLC stays in flight. The taker's failure path discloses the swap key, so an adapter that gives up
// on a payment which is still in flight turns a slow maker into a key disclosure with an HTLC outstanding.
func TestC06LndPaymentAdapter(t *testing.T) {
	col := stats.Get("C06.lnd-payment-adapter")
	rapid.Check(t, func(t *rapid.T) {
		peer := "03" + strings.Repeat("bb", 32)
		scid := lnwire.ShortChannelID{BlockHeight: 700000, TxIndex: 12, TxPosition: 1}
		ch := &lnrpc.Channel{Active: true, RemotePubkey: peer, ChanId: scid.ToUint64(), Capacity: 10_000_000, LocalBalance: 6_000_000, RemoteBalance: 4_000_000,
			LocalConstraints: &lnrpc.ChannelConstraints{ChanReserveSat: 1000}, RemoteConstraints: &lnrpc.ChannelConstraints{ChanReserveSat: 1000}}
		amtSat := rapid.Int64Range(1000, 3_000_000).Draw(t, "amountSat")
		chans := []*lnrpc.Channel{ch}
		// channels funded by the same transaction (batch open) differ in the output index only
		if rapid.Bool().Draw(t, "siblingChannel") {
			sib := lnwire.ShortChannelID{BlockHeight: 700000, TxIndex: 12, TxPosition: uint16(rapid.SampledFrom([]int{0, 2}).Draw(t, "siblingOutput"))}
			sc := &lnrpc.Channel{Active: true, RemotePubkey: peer, ChanId: sib.ToUint64(), Capacity: 10_000_000, LocalBalance: 6_000_000, RemoteBalance: 4_000_000,
				LocalConstraints: &lnrpc.ChannelConstraints{ChanReserveSat: 1000}, RemoteConstraints: &lnrpc.ChannelConstraints{ChanReserveSat: 1000}}
			if rapid.Bool().Draw(t, "siblingFirst") {
				chans = []*lnrpc.Channel{sc, ch}
			} else {
				chans = append(chans, sc)
			}
		}
		f := &fakeLnd{channels: chans, peers: []string{peer}, edges: map[uint64]*lnrpc.ChannelEdge{},
			invoices: map[string]*lnrpc.PayReq{"lnbcrt1claim": {Destination: peer, NumSatoshis: amtSat, NumMsat: amtSat * 1000, CltvExpiry: 18, PaymentHash: strings.Repeat("cd", 32)}}}
		r := &fakeRouter{preimage: strings.Repeat("ef", 32)}
		outcome := rapid.SampledFrom([]string{"succeeded", "succeeded", "failed", "stream-error"}).Draw(t, "outcome")
		inflight := rapid.IntRange(0, 1).Draw(t, "inFlightUpdates")
		held := rapid.Bool().Draw(t, "heldLong")
		for i := 0; i < inflight; i++ {
			r.plan = append(r.plan, payStep{status: lnrpc.Payment_IN_FLIGHT})
		}
		last := payStep{heldLong: held}
		switch outcome {
		case "succeeded":
			last.status = lnrpc.Payment_SUCCEEDED
		case "failed":
			last.status = lnrpc.Payment_FAILED
		case "stream-error":
			last.err = status.Error(codes.Unavailable, "transport is closing")
		}
		r.plan = append(r.plan, last)
		cl := lnd.VerifNewClient(context.Background(), f, nil, r, nil)
		cl.VerifSetPubkey(selfPub)
		kind := rapid.SampledFrom([]string{"claim", "claim", "fee"}).Draw(t, "kind")
		var pre string
		var err error
		if kind == "claim" {
			pre, err = cl.RebalancePayment("lnbcrt1claim", "700000x12x1", 32)
		} else {
			pre, err = cl.PayInvoiceViaChannel("lnbcrt1claim", "700000:12:1")
		}
		desc := fmt.Sprintf("kind=%s outcome=%s inFlightUpdates=%d heldLong=%v", kind, outcome, inflight, held)
		switch outcome {
		case "succeeded":
			if err != nil || pre != r.preimage {
				key := "C06/lnd-adapter/settled-payment-reported-failed"
				if held {
					key = "C06/lnd-adapter/gave-up-on-payment-in-flight"
				}
				t.Fatalf("VKEY[%s] %s: lnd settles the payment, the adapter returned (%q, %v)", key, desc, pre, err)
			}
		default:
			if err == nil {
				t.Fatalf("VKEY[C06/lnd-adapter/failed-payment-reported-paid] %s: the adapter returned preimage %q", desc, pre)
			}
		}
		if len(r.sendReqs) != 1 {
			t.Fatalf("VKEY[C24/lnd-adapter/payment-attempts] %s: %d SendPaymentV2 calls for one payment", desc, len(r.sendReqs))
		}
		// one HTLC, over the swap's own channel, for the invoice as it is
		if rq := r.sendReqs[0]; len(rq.OutgoingChanIds) != 1 || rq.OutgoingChanIds[0] != scid.ToUint64() || rq.OutgoingChanId != 0 && rq.OutgoingChanId != scid.ToUint64() {
			t.Fatalf("VKEY[C24/lnd-adapter/other-channel] %s (channels listed: %d): payment restricted to channels %v, the swap channel is %d", desc, len(chans), rq.OutgoingChanIds, scid.ToUint64())
		} else if rq.MaxParts != 1 || rq.PaymentRequest != "lnbcrt1claim" || rq.Amt != 0 || rq.AmtMsat != 0 || len(rq.Dest) != 0 {
			t.Fatalf("VKEY[C24/lnd-adapter/request-shape] %s: max_parts=%d payment_request=%q amt=%d/%d dest=%x", desc, rq.MaxParts, rq.PaymentRequest, rq.Amt, rq.AmtMsat, rq.Dest)
		}
		col.Case(desc, held || inflight > 0, map[string]interface{}{"kind": kind, "outcome": outcome, "held_long": held}, "outcome:"+outcome, fmt.Sprintf("held-long:%v", held))
	})
}

// TestC04LndRecoverClaimPayment: following an existing payment never creates one and answers with the
// preimage only for a settled payment.
func TestC04LndRecoverClaimPayment(t *testing.T) {
	col := stats.Get("C04.lnd-recover-adapter")
	rapid.Check(t, func(t *rapid.T) {
		peer := "03" + strings.Repeat("bb", 32)
		f := &fakeLnd{edges: map[uint64]*lnrpc.ChannelEdge{},
			invoices: map[string]*lnrpc.PayReq{"lnbcrt1claim": {Destination: peer, NumSatoshis: 5000, NumMsat: 5_000_000, CltvExpiry: 18, PaymentHash: strings.Repeat("cd", 32)}}}
		r := &fakeRouter{preimage: strings.Repeat("ef", 32)}
		outcome := rapid.SampledFrom([]string{"succeeded", "succeeded", "failed", "unknown-payment", "stream-error", "in-flight-only"}).Draw(t, "outcome")
		// the HTLC of the payment started before the restart may still be out when the node asks
		stillOut := rapid.IntRange(0, 2).Draw(t, "inFlightUpdatesFirst")
		for i := 0; i < stillOut && outcome != "unknown-payment"; i++ {
			r.trackPlan = append(r.trackPlan, payStep{status: lnrpc.Payment_IN_FLIGHT})
		}
		switch outcome {
		case "succeeded":
			r.trackPlan = append(r.trackPlan, payStep{status: lnrpc.Payment_SUCCEEDED})
		case "failed":
			r.trackPlan = append(r.trackPlan, payStep{status: lnrpc.Payment_FAILED})
		case "unknown-payment":
			r.trackPlan = []payStep{{err: status.Error(codes.NotFound, "payment isn't initiated")}}
		case "stream-error":
			r.trackPlan = append(r.trackPlan, payStep{err: status.Error(codes.Unavailable, "transport is closing")})
		case "in-flight-only":
			r.trackPlan = append(r.trackPlan, payStep{status: lnrpc.Payment_IN_FLIGHT})
		}
		cl := lnd.VerifNewClient(context.Background(), f, nil, r, nil)
		pre, err := cl.RecoverClaimPayment("lnbcrt1claim")
		if len(r.sendReqs) != 0 {
			t.Fatalf("VKEY[C04/lnd-adapter/recover-created-payment] outcome %s: RecoverClaimPayment called SendPaymentV2", outcome)
		}
		if outcome == "succeeded" {
			if err != nil || pre != r.preimage {
				key := "C06/lnd-adapter/settled-payment-not-recovered"
				if stillOut > 0 {
					// an error here sends the taker down the failure path (coop_close with the swap key)
					// while the HTLC can still be settled
					key = "C06/lnd-adapter/gave-up-on-recovered-payment-in-flight"
				}
				t.Fatalf("VKEY[%s] the payment settles after %d in-flight update(s), RecoverClaimPayment returned (%q, %v)", key, stillOut, pre, err)
			}
		} else if err == nil {
			t.Fatalf("VKEY[C06/lnd-adapter/unsettled-payment-recovered] outcome %s: RecoverClaimPayment returned preimage %q", outcome, pre)
		}
		col.Case(fmt.Sprintf("%s/%d", outcome, stillOut), true, outcome, "outcome:"+outcome, fmt.Sprintf("in-flight-first:%d", stillOut))
	})
}

// AddInvoice of the fake: fails when told to.
func (f *fakeLnd) AddInvoice(_ context.Context, in *lnrpc.Invoice, _ ...grpc.CallOption) (*lnrpc.AddInvoiceResponse, error) {
	f.mu.Lock()
	defer f.mu.Unlock()
	if f.addInvoiceErr != nil {
		return nil, f.addInvoiceErr
	}
	return &lnrpc.AddInvoiceResponse{PaymentRequest: "lnbcrt1new", RHash: []byte{1}}, nil
}

// TestC23LndAdapterErrorsCarryNoSecrets: errors the LND adapter returns end up in cancel messages
// (HandleError -> CancelMessage), so they must not quote the secrets that were passed in - here the
// preimage handed to GetPayreq when lnd refuses to create the invoice.
func TestC23LndAdapterErrorsCarryNoSecrets(t *testing.T) {
	col := stats.Get("C23.lnd-adapter-errors")
	rapid.Check(t, func(t *rapid.T) {
		pre := rapid.SliceOfN(rapid.Byte(), 32, 32).Draw(t, "preimage")
		preHex := fmt.Sprintf("%x", pre)
		f := &fakeLnd{edges: map[uint64]*lnrpc.ChannelEdge{}}
		f.addInvoiceErr = status.Error(rapid.SampledFrom([]codes.Code{codes.Unavailable, codes.Unknown, codes.InvalidArgument}).Draw(t, "code"), rapid.SampledFrom([]string{"wallet locked", "invoice with payment hash already exists", "value too large"}).Draw(t, "lndMessage"))
		cl := lnd.VerifNewClient(context.Background(), f, nil, nil, nil)
		_, err := cl.GetPayreq(rapid.Uint64Range(1000, 5_000_000_000).Draw(t, "msat"), preHex, "swapid", "memo", 1, 3600, 29)
		if err == nil {
			t.Fatalf("harness: GetPayreq succeeded although AddInvoice failed")
		}
		msg := err.Error()
		forms := map[string]string{"hex": preHex, "raw": string(pre), "quoted": fmt.Sprintf("%q", pre), "go-bytes": fmt.Sprintf("%v", pre), "base64": base64.StdEncoding.EncodeToString(pre), "upper-hex": strings.ToUpper(preHex)}
		for name, form := range forms {
			if strings.Contains(msg, form) || (name == "quoted" && strings.Contains(msg, strings.Trim(form, "\""))) {
				t.Fatalf("VKEY[C23/lnd-adapter/error-quotes-preimage:%s] the error returned for a failed AddInvoice contains the preimage (%s form): %s", name, name, msg)
			}
		}
		col.Case(preHex, true, nil)
	})
}
