package adapters

import (
	"context"
	"encoding/json"
	"fmt"
	"net"
	"os"
	"path/filepath"
	"strings"
	"sync"
	"testing"

	"github.com/elementsproject/peerswap/clightning"
	"pgregory.net/rapid"

	"verifharness/stats"
)

// fakeCln is a core-lightning JSON-RPC server on a unix socket: it answers the commands the adapter's
// payment-recovery path uses from a per-case payment table and logs every command it was asked.
type fakeCln struct {
	mu       sync.Mutex
	ln       net.Listener
	dir      string
	attempts []map[string]interface{} // listsendpays answer for the claim hash
	wait     map[string]interface{}   // waitsendpay result, or nil for an error
	waitErr  string
	calls    []string
	// payment path: every sendpay request, and what the following waitsendpay calls answer
	sendpays []map[string]interface{}
	waitPlan []clnWait
}

// clnWait is one waitsendpay answer: the preimage, or a payment failure with a BOLT #4 failcode.
type clnWait struct {
	ok       bool
	failcode int
	rpcDown  bool
}

func newFakeCln(t interface{ Fatalf(string, ...interface{}) }) *fakeCln {
	dir, err := os.MkdirTemp("", "cln")
	if err != nil {
		t.Fatalf("tmp: %v", err)
	}
	ln, err := net.Listen("unix", filepath.Join(dir, "lightning-rpc"))
	if err != nil {
		t.Fatalf("listen: %v", err)
	}
	f := &fakeCln{ln: ln, dir: dir}
	go func() {
		for {
			c, err := ln.Accept()
			if err != nil {
				return
			}
			go f.serve(c)
		}
	}()
	return f
}

func (f *fakeCln) close() { f.ln.Close(); os.RemoveAll(f.dir) }

const claimHash = "cdcdcdcdcdcdcdcdcdcdcdcdcdcdcdcdcdcdcdcdcdcdcdcdcdcdcdcdcdcdcdcd"

func (f *fakeCln) serve(c net.Conn) {
	defer c.Close()
	dec := json.NewDecoder(c)
	for {
		var req struct {
			Id     json.RawMessage        `json:"id"`
			Method string                 `json:"method"`
			Params map[string]interface{} `json:"params"`
		}
		if err := dec.Decode(&req); err != nil {
			return
		}
		f.mu.Lock()
		f.calls = append(f.calls, req.Method)
		var result interface{}
		var rpcErr map[string]interface{}
		switch req.Method {
		case "decode":
			rpcErr = map[string]interface{}{"code": -32601, "message": "Unknown command 'decode'"}
		case "decodepay":
			result = map[string]interface{}{"currency": "bcrt", "payee": "03" + strings.Repeat("bb", 32), "amount_msat": 5000000, "min_final_cltv_expiry": 18, "payment_hash": claimHash, "description": "claim"}
		case "listsendpays":
			result = map[string]interface{}{"payments": f.attempts}
		case "sendpay":
			f.sendpays = append(f.sendpays, req.Params)
			result = map[string]interface{}{"id": len(f.sendpays), "payment_hash": claimHash, "status": "pending", "amount_sent_msat": 5000000, "created_at": 1700000000, "groupid": len(f.sendpays)}
		case "waitsendpay":
			if len(f.waitPlan) > 0 {
				w := f.waitPlan[0]
				f.waitPlan = f.waitPlan[1:]
				switch {
				case w.ok:
					result = map[string]interface{}{"id": 9, "payment_hash": claimHash, "status": "complete", "payment_preimage": strings.Repeat("ef", 32), "amount_msat": 5000000, "amount_sent_msat": 5000000, "created_at": 1700000000}
				case w.rpcDown:
					rpcErr = map[string]interface{}{"code": -1, "message": "lightningd is shutting down"}
				default:
					rpcErr = map[string]interface{}{"code": 204, "message": "failed: WIRE_FAILURE (reply from remote)", "data": map[string]interface{}{"id": 9, "payment_hash": claimHash, "status": "failed",
						"erring_index": 1, "failcode": w.failcode, "failcodename": "WIRE_FAILURE", "erring_node": "03" + strings.Repeat("bb", 32), "erring_channel": "700000x12x1", "erring_direction": 0,
						"amount_msat": 5000000, "amount_sent_msat": 5000000, "created_at": 1700000000}}
				}
			} else if f.wait != nil {
				result = f.wait
			} else {
				rpcErr = map[string]interface{}{"code": 203, "message": f.waitErr}
			}
		default:
			rpcErr = map[string]interface{}{"code": -32601, "message": "Unknown command"}
		}
		f.mu.Unlock()
		resp := map[string]interface{}{"jsonrpc": "2.0", "id": req.Id}
		if rpcErr != nil {
			resp["error"] = rpcErr
		} else {
			resp["result"] = result
		}
		b, _ := json.Marshal(resp)
		if _, err := c.Write(append(b, '\n', '\n')); err != nil {
			return
		}
	}
}

// TestC06ClnRecoverClaimPayment: the CLN adapter's "follow an existing payment" answer over generated
// sendpay histories of the claim hash (several attempts, any order of failed / pending / complete):
// the preimage exactly when some attempt is complete or the pending one settles; an error - which the
// taker's failure path turns into key disclosure - only when every attempt has failed, none exists, or the
// pending attempt fails; and never a new payment.
func TestC06ClnRecoverClaimPayment(t *testing.T) {
	col := stats.Get("C06.cln-recover-adapter")
	rapid.Check(t, func(t *rapid.T) {
		f := newFakeCln(t)
		defer f.close()
		cl, _, err := clightning.NewClightningClient(context.Background())
		if err != nil {
			t.Fatalf("client: %v", err)
		}
		cl.VerifStartUp("lightning-rpc", f.dir)
		preimage := strings.Repeat("ef", 32)
		n := rapid.IntRange(0, 4).Draw(t, "attempts")
		var statuses []string
		hasComplete, hasPending := false, false
		for i := 0; i < n; i++ {
			st := rapid.SampledFrom([]string{"failed", "failed", "pending", "complete"}).Draw(t, "status")
			if st == "pending" && hasPending {
				st = "failed" // one HTLC set in flight per hash
			}
			statuses = append(statuses, st)
			a := map[string]interface{}{"id": i + 1, "payment_hash": claimHash, "status": st, "amount_msat": 5000000, "amount_sent_msat": 5000000, "created_at": 1700000000 + i, "partid": 0, "groupid": i + 1}
			if st == "complete" {
				a["payment_preimage"] = preimage
				hasComplete = true
			}
			if st == "pending" {
				hasPending = true
			}
			f.attempts = append(f.attempts, a)
		}
		pendingSettles := rapid.Bool().Draw(t, "pendingSettles")
		if pendingSettles {
			f.wait = map[string]interface{}{"id": 9, "payment_hash": claimHash, "status": "complete", "payment_preimage": preimage, "amount_msat": 5000000, "amount_sent_msat": 5000000}
		} else {
			f.waitErr = "WIRE_TEMPORARY_CHANNEL_FAILURE"
		}
		got, rerr := cl.RecoverClaimPayment("lnbcrt1claim")
		desc := fmt.Sprintf("attempts=%v pendingSettles=%v", statuses, pendingSettles)
		f.mu.Lock()
		calls := append([]string{}, f.calls...)
		f.mu.Unlock()
		for _, c := range calls {
			if c == "sendpay" || c == "pay" || c == "xpay" || c == "keysend" {
				t.Fatalf("VKEY[C04/cln-adapter/recover-created-payment] %s: RecoverClaimPayment issued %q", desc, c)
			}
		}
		wantPreimage := hasComplete || (hasPending && pendingSettles)
		if wantPreimage {
			if rerr != nil || got != preimage {
				key := "C06/cln-adapter/settled-payment-reported-failed"
				if !hasComplete {
					key = "C06/cln-adapter/pending-payment-reported-failed"
				}
				t.Fatalf("VKEY[%s] %s: the claim payment is settled (or settles), the adapter returned (%q, %v)", key, desc, got, rerr)
			}
		} else if rerr == nil {
			t.Fatalf("VKEY[C06/cln-adapter/unsettled-payment-recovered] %s: the adapter returned preimage %q", desc, got)
		}
		nt := n >= 2 && (hasComplete || hasPending)
		col.Case(desc, nt, map[string]interface{}{"attempts": statuses, "pending_settles": pendingSettles}, fmt.Sprintf("attempts:%d", n), fmt.Sprintf("complete:%v", hasComplete), fmt.Sprintf("pending:%v", hasPending))
	})
}

// TestC05ClnPaymentAdapter: one call of the CLN adapter's claim payment creates one HTLC. The taker's loop
// checks the chain height (and, for Bitcoin, the invoice CLTV against the csv) before every call, so an
// adapter that sends again on its own creates HTLCs nobody checked: after a long-held, finally failed
// attempt the next one can expire after the maker's refund. Generated waitsendpay outcomes (settled,
// permanent failure, temporary failure with the UPDATE flag, rpc error): exactly one sendpay per call, the
// preimage exactly when that payment settled, and the route is the single hop over the swap's channel.
func TestC05ClnPaymentAdapter(t *testing.T) {
	col := stats.Get("C05.cln-payment-adapter")
	rapid.Check(t, func(t *rapid.T) {
		f := newFakeCln(t)
		defer f.close()
		cl, _, err := clightning.NewClightningClient(context.Background())
		if err != nil {
			t.Fatalf("client: %v", err)
		}
		cl.VerifStartUp("lightning-rpc", f.dir)
		first := rapid.SampledFrom([]string{"settled", "settled", "temporary-failure", "temporary-failure", "permanent-failure", "rpc-error"}).Draw(t, "firstOutcome")
		mk := func(o string) clnWait {
			switch o {
			case "settled":
				return clnWait{ok: true}
			case "temporary-failure":
				return clnWait{failcode: rapid.SampledFrom([]int{0x1007, 0x100c, 0x1006}).Draw(t, "updateFailcode")} // temporary_channel_failure, fee_insufficient, channel_disabled
			case "permanent-failure":
				return clnWait{failcode: rapid.SampledFrom([]int{0x400f, 0x4008, 0x2002}).Draw(t, "permFailcode")}
			}
			return clnWait{rpcDown: true}
		}
		f.waitPlan = []clnWait{mk(first)}
		// whatever a second and third attempt would meet
		for i := 0; i < 3; i++ {
			f.waitPlan = append(f.waitPlan, mk(rapid.SampledFrom([]string{"settled", "temporary-failure", "permanent-failure"}).Draw(t, "laterOutcome")))
		}
		kind := rapid.SampledFrom([]string{"claim-btc", "claim-liquid", "fee"}).Draw(t, "kind")
		scid := rapid.SampledFrom([]string{"700000x12x1", "700000:12:1"}).Draw(t, "scid")
		var pre string
		var perr error
		switch kind {
		case "claim-btc":
			pre, perr = cl.RebalancePayment("lnbcrt1claim", scid, 0)
		case "claim-liquid":
			pre, perr = cl.RebalancePayment("lnbcrt1claim", scid, 32)
		default:
			pre, perr = cl.PayInvoiceViaChannel("lnbcrt1claim", scid)
		}
		desc := fmt.Sprintf("kind=%s scid=%s first=%s", kind, scid, first)
		f.mu.Lock()
		sends := append([]map[string]interface{}{}, f.sendpays...)
		f.mu.Unlock()
		if len(sends) != 1 {
			t.Fatalf("VKEY[C05/cln-adapter/payment-attempts] %s: %d sendpay commands for one payment call (returned %q, %v)", desc, len(sends), pre, perr)
		}
		if first == "settled" {
			if perr != nil || pre != strings.Repeat("ef", 32) {
				t.Fatalf("VKEY[C06/cln-adapter/settled-payment-reported-failed] %s: the payment settled, the adapter returned (%q, %v)", desc, pre, perr)
			}
		} else if perr == nil {
			t.Fatalf("VKEY[C06/cln-adapter/failed-payment-reported-paid] %s: the adapter returned preimage %q", desc, pre)
		}
		// the route: one hop, to the payee, over the swap's channel, for the invoice amount
		route, _ := sends[0]["route"].([]interface{})
		if len(route) != 1 {
			t.Fatalf("VKEY[C24/cln-adapter/route-shape] %s: route %v", desc, sends[0]["route"])
		}
		hop, _ := route[0].(map[string]interface{})
		if hop["id"] != "03"+strings.Repeat("bb", 32) || hop["channel"] != "700000x12x1" || fmt.Sprint(hop["delay"]) != "19" {
			t.Fatalf("VKEY[C24/cln-adapter/route-shape] %s: hop %v", desc, hop)
		}
		col.Case(desc, first != "settled", map[string]interface{}{"kind": kind, "first": first}, "first:"+first, "kind:"+kind)
	})
}
