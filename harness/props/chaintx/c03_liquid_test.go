package chaintx

import (
	"bytes"
	"crypto/sha256"
	"encoding/hex"
	"errors"
	"fmt"
	"testing"

	"github.com/btcsuite/btcd/btcec/v2"
	"github.com/btcsuite/btcd/btcec/v2/ecdsa"
	"github.com/btcsuite/btcd/txscript"
	"github.com/elementsproject/peerswap/onchain"
	"github.com/elementsproject/peerswap/swap"
	"github.com/vulpemventures/go-elements/confidential"
	"github.com/vulpemventures/go-elements/elementsutil"
	"github.com/vulpemventures/go-elements/transaction"
	"pgregory.net/rapid"

	"verifharness/oracle/scriptpolicy"
	"verifharness/realtx"
	"verifharness/stats"
)

type keySigner struct{ k *btcec.PrivateKey }

func (s keySigner) Sign(hash []byte) (*ecdsa.Signature, error) { return ecdsa.Sign(s.k, hash), nil }

// checkLiquidSpend judges a spending transaction the node built against the opening transaction.
func checkLiquidSpend(kind string, spend *transaction.Transaction, opening *transaction.Transaction, trueVout uint32, params *swap.OpeningParams,
	walletBlind *btcec.PrivateKey, walletScript []byte, wantFee uint64, makerPub, takerPub []byte, hash []byte) error {
	if len(spend.Inputs) != 1 {
		return fmt.Errorf("inputs: %d", len(spend.Inputs))
	}
	in := spend.Inputs[0]
	oh := opening.TxHash()
	if !bytes.Equal(in.Hash, oh[:]) || in.Index != trueVout {
		return fmt.Errorf("spends %x:%d, swap output is %s:%d", elementsutil.ReverseBytes(in.Hash), in.Index, oh.String(), trueVout)
	}
	prev := opening.Outputs[trueVout]
	if len(in.Witness) < 2 {
		return fmt.Errorf("witness has %d items", len(in.Witness))
	}
	redeem := in.Witness[len(in.Witness)-1]
	wsh := sha256.Sum256(redeem)
	if !bytes.Equal(prev.Script, append([]byte{0x00, 0x20}, wsh[:]...)) {
		return errors.New("witness script does not hash to the spent output's script")
	}
	// the spent output must carry the script of THIS swap (both keys, the hash, the swap's own csv)
	if want := scriptpolicy.Build(scriptpolicy.Params{Maker: makerPub, Taker: takerPub, Hash: hash, CSV: params.CSV}); !bytes.Equal(redeem, want) {
		return fmt.Errorf("the witness script is not the opening script of the swap (csv %d):\n got  %x\n want %x", params.CSV, redeem, want)
	}
	sigHash := spend.HashForWitnessV0(0, redeem, prev.Value, txscript.SigHashAll)
	checker := func(pub, sig []byte) (bool, error) {
		if sig[len(sig)-1] != byte(txscript.SigHashAll) {
			return false, nil
		}
		parsed, err := ecdsa.ParseDERSignature(sig[:len(sig)-1])
		if err != nil {
			return false, err
		}
		pk, err := btcec.ParsePubKey(pub)
		if err != nil {
			return false, err
		}
		return parsed.Verify(sigHash[:], pk), nil
	}
	ok, err := scriptpolicy.Eval(scriptpolicy.Params{Maker: makerPub, Taker: takerPub, Hash: hash, CSV: params.CSV}, in.Witness[:len(in.Witness)-1],
		scriptpolicy.TxCtx{Version: spend.Version, Sequence: in.Sequence}, checker)
	if err != nil || !ok {
		return fmt.Errorf("script not satisfied (signatures over the real amount commitment, version %d sequence %d): %v", spend.Version, in.Sequence, err)
	}
	switch kind {
	case "csv":
		if spend.Version < 2 || in.Sequence != params.CSV {
			return fmt.Errorf("csv refund with version %d sequence %d, csv %d", spend.Version, in.Sequence, params.CSV)
		}
	default:
		if in.Sequence&0xffff != 0 && in.Sequence&(1<<31) == 0 {
			return fmt.Errorf("%s spend carries a relative lock (sequence %d)", kind, in.Sequence)
		}
	}
	// outputs: one payment to the wallet, one explicit fee
	var pay []*transaction.TxOutput
	var fee []*transaction.TxOutput
	for _, o := range spend.Outputs {
		if len(o.Script) == 0 {
			fee = append(fee, o)
		} else {
			pay = append(pay, o)
		}
	}
	if len(pay) != 1 || len(fee) != 1 {
		return fmt.Errorf("%d payment outputs and %d fee outputs", len(pay), len(fee))
	}
	if !bytes.Equal(pay[0].Script, walletScript) {
		return fmt.Errorf("pays to %x, not to the wallet's address", pay[0].Script)
	}
	tag, asset32 := realtx.PolicyAsset()
	feeVal, ferr := elementsutil.ValueFromBytes(fee[0].Value)
	if ferr != nil || !bytes.Equal(fee[0].Asset, tag) {
		return errors.New("fee output is not an explicit policy-asset output")
	}
	if feeVal != wantFee {
		return fmt.Errorf("fee %d, wallet estimate/placeholder says %d", feeVal, wantFee)
	}
	val, asset, err := realtx.Unblind(pay[0], walletBlind)
	if err != nil {
		return fmt.Errorf("wallet cannot unblind its output: %v", err)
	}
	if !bytes.Equal(asset, asset32) {
		return errors.New("payment output is not in the policy asset")
	}
	if val != params.Amount-feeVal {
		return fmt.Errorf("pays %d, swap amount %d minus fee %d is %d", val, params.Amount, feeVal, params.Amount-feeVal)
	}
	if !confidential.VerifyRangeProof(pay[0].Value, pay[0].Asset, pay[0].Script, pay[0].RangeProof) {
		return errors.New("range proof does not verify")
	}
	inRes, err := confidential.UnblindOutputWithKey(prev, params.BlindingKey.Serialize())
	if err != nil {
		return err
	}
	outRes, err := confidential.UnblindOutputWithKey(pay[0], walletBlind.Serialize())
	if err != nil {
		return err
	}
	if !confidential.VerifySurjectionProof(confidential.VerifySurjectionProofArgs{InputAssets: [][]byte{inRes.Asset}, InputAssetBlindingFactors: [][]byte{inRes.AssetBlindingFactor},
		OutputAsset: outRes.Asset, OutputAssetBlindingFactor: outRes.AssetBlindingFactor, Proof: pay[0].SurjectionProof}) {
		return errors.New("surjection proof does not verify")
	}
	return nil
}

func TestC03LiquidSpends(t *testing.T) {
	col := stats.Get("C03.liquid")
	rapid.Check(t, func(t *rapid.T) {
		seed := rapid.StringMatching(`[a-z]{6}`).Draw(t, "seed")
		w := realtx.NewLiquidWallet(seed)
		w.Inputs = rapid.IntRange(1, 3).Draw(t, "inputs")
		w.OutsBefore = rapid.IntRange(0, 2).Draw(t, "outsBefore")
		w.OutsAfter = rapid.IntRange(0, 2).Draw(t, "outsAfter")
		w.EqualValue = w.OutsBefore > 0 && rapid.Bool().Draw(t, "equalValueBefore")
		feeMode := rapid.SampledFrom([]string{"answer", "answer", "error"}).Draw(t, "feeMode")
		wantFee := rapid.Uint64Range(30, 5000).Draw(t, "feeAnswer")
		w.FeeAnswer = wantFee
		if feeMode == "error" {
			w.FeeErr = errors.New("estimatesmartfee failed")
			wantFee = 500
		}
		l := onchain.NewLiquidOnChain(w, realtx.Net)
		r := realtx.NewRand(seed + "keys")
		taker, maker, blind := r.Key(), r.Key(), r.Key()
		preimage := r.Bytes32()
		hash := sha256.Sum256(preimage)
		csv := rapid.SampledFrom([]uint32{10080, 10080, 60}).Draw(t, "csv")
		amount := rapid.Uint64Range(100_000, 50_000_000).Draw(t, "amount")
		takerPub, makerPub := taker.PubKey().SerializeCompressed(), maker.PubKey().SerializeCompressed()
		params := &swap.OpeningParams{TakerPubkey: hex.EncodeToString(takerPub), MakerPubkey: hex.EncodeToString(makerPub),
			ClaimPaymentHash: hex.EncodeToString(hash[:]), Amount: amount, CSV: csv, BlindingKey: blind}
		txHex, _, _, _, _, err := l.CreateOpeningTransaction(params)
		if err != nil {
			t.Fatalf("CreateOpeningTransaction: %v", err)
		}
		if ok, err := l.ValidateTx(params, txHex); !ok || err != nil {
			t.Fatalf("harness: generated opening tx does not validate: %v", err)
		}
		opening, _ := transaction.NewTxFromHex(txHex)
		trueVout := uint32(w.OutsBefore)
		// the opening transaction may also be the peer's: blinded like ours, with an explicit (unblinded)
		// swap output, or with a further output to the swap script behind the real one - anything the
		// validator accepts is in the domain
		peerShape := rapid.SampledFrom([]string{"own", "own", "own", "peer-blinded", "peer-explicit", "peer-explicit", "peer-decoy-after"}).Draw(t, "openingBy")
		if peerShape != "own" {
			swapScript := realtx.P2WSH(scriptpolicy.Build(scriptpolicy.Params{Maker: makerPub, Taker: takerPub, Hash: hash[:], CSV: csv}))
			pr := realtx.NewRand(seed + "peer")
			otherBlind := pr.Key()
			var outs []realtx.OutSpec
			nb := rapid.IntRange(0, 2).Draw(t, "peerOutsBefore")
			for i := 0; i < nb; i++ {
				outs = append(outs, realtx.OutSpec{Script: []byte{0x00, 0x14, byte(i), 2, 3, 4, 5, 6, 7, 8, 9, 10, 11, 12, 13, 14, 15, 16, 17, 18, 19, 20}, Value: 33_000 + uint64(i), BlindTo: otherBlind.PubKey()})
			}
			so := realtx.OutSpec{Script: swapScript, Value: amount, BlindTo: blind.PubKey()}
			if peerShape == "peer-explicit" {
				so.BlindTo = nil
			}
			outs = append(outs, so)
			if peerShape == "peer-decoy-after" {
				outs = append(outs, realtx.OutSpec{Script: swapScript, Value: amount / 2, BlindTo: blind.PubKey()})
			}
			outs = append(outs, realtx.OutSpec{Script: []byte{0x00, 0x14, 9, 9, 9, 4, 5, 6, 7, 8, 9, 10, 11, 12, 13, 14, 15, 16, 17, 18, 19, 20}, Value: 44_000, BlindTo: otherBlind.PubKey()}, realtx.OutSpec{Fee: true, Value: 260})
			ptx, err := realtx.BuildTx(pr, rapid.IntRange(1, 2).Draw(t, "peerInputs"), outs)
			if err != nil {
				t.Fatalf("harness: build peer opening: %v", err)
			}
			ph, _ := ptx.ToHex()
			if ok, verr := l.ValidateTx(params, ph); !ok || verr != nil {
				col.Case("peer-opening-refused:"+peerShape, false, nil, "peer-opening-not-accepted-by-validator:"+peerShape)
				return
			}
			opening, txHex, trueVout = ptx, ph, uint32(nb)
		}
		walletPay := walletScriptOf(w)
		kind := rapid.SampledFrom([]string{"preimage", "csv", "coop"}).Draw(t, "kind")
		desc := fmt.Sprintf("kind=%s csv=%d amount=%d inputs=%d before=%d after=%d equal=%v fee=%s/%d opening=%s/vout%d", kind, csv, amount, w.Inputs, w.OutsBefore, w.OutsAfter, w.EqualValue, feeMode, wantFee, peerShape, trueVout)
		var cerr error
		switch kind {
		case "preimage":
			_, _, _, cerr = l.CreatePreimageSpendingTransaction(params, &swap.ClaimParams{Preimage: hex.EncodeToString(preimage), Signer: keySigner{taker}, OpeningTxHex: txHex})
		case "csv":
			_, _, _, cerr = l.CreateCsvSpendingTransaction(params, &swap.ClaimParams{Signer: keySigner{maker}, OpeningTxHex: txHex})
		case "coop":
			_, _, _, cerr = l.CreateCoopSpendingTransaction(params, &swap.ClaimParams{Signer: keySigner{maker}, OpeningTxHex: txHex}, keySigner{taker})
		}
		if cerr != nil {
			t.Fatalf("VKEY[C03/liquid/%s-build-failed] %s: %v", kind, desc, cerr)
		}
		spend := w.LastSent().Tx
		if err := checkLiquidSpend(kind, spend, opening, trueVout, params, w.BlindKey, walletPay, wantFee, makerPub, takerPub, hash[:]); err != nil {
			t.Fatalf("VKEY[C03/liquid/%s-spend-invalid] %s: %v", kind, desc, err)
		}
		col.Case(desc, w.OutsBefore > 0 || w.OutsAfter > 0, map[string]interface{}{"kind": kind, "csv": csv, "amount": amount, "swap_vout": trueVout, "outputs": len(opening.Outputs)}, "kind:"+kind, fmt.Sprintf("vout:%d", trueVout), "opening:"+peerShape)
	})
}

func walletScriptOf(w *realtx.LiquidWallet) []byte {
	a, _ := w.GetAddress()
	s, _ := addressToScript(a)
	return s
}
