package chaintx

import (
	"encoding/hex"
	"testing"

	"github.com/elementsproject/peerswap/onchain"
	"github.com/elementsproject/peerswap/swap"

	"verifharness/realtx"
)

func TestSmokeLiquidOpeningValidates(t *testing.T) {
	w := realtx.NewLiquidWallet("smoke")
	w.OutsBefore = 1
	l := onchain.NewLiquidOnChain(w, realtx.Net)
	r := realtx.NewRand("keys")
	taker, maker, blind := r.Key(), r.Key(), r.Key()
	params := &swap.OpeningParams{TakerPubkey: hex.EncodeToString(taker.PubKey().SerializeCompressed()), MakerPubkey: hex.EncodeToString(maker.PubKey().SerializeCompressed()),
		ClaimPaymentHash: hex.EncodeToString(r.Bytes32()), Amount: 1_000_000, CSV: 10080, BlindingKey: blind}
	txHex, _, txid, _, vout, err := l.CreateOpeningTransaction(params)
	if err != nil {
		t.Fatal(err)
	}
	ok, err := l.ValidateTx(params, txHex)
	t.Logf("txid=%s vout=%d valid=%v err=%v len=%d", txid[:8], vout, ok, err, len(txHex))
	if !ok || err != nil {
		t.Fatal("opening tx built by the sim wallet must validate")
	}
}
