package chaintx

import (
	"fmt"
	"math"
	"strings"
	"testing"

	"github.com/elementsproject/glightning/glightning"
	"github.com/elementsproject/peerswap/clightning"
	"github.com/elementsproject/peerswap/lnd"
	"github.com/elementsproject/peerswap/swap"
	"github.com/lightningnetwork/lnd/lnrpc"
	"pgregory.net/rapid"

	"verifharness/pbt"
	"verifharness/stats"
)

const lndBlockPadding = 3 // routing.BlockPadding, from lnd's documentation of the final-hop padding

func genCltv(t *rapid.T) int64 {
	return rapid.OneOf(
		rapid.SampledFrom([]int64{0, 1, 9, 18, 28, 29, 30, 31, 32, 33, 40, 144, 503, 504, 505, math.MaxUint32 - 1, math.MaxUint32, math.MaxUint32 + 1, math.MaxInt32, -1, -29}),
		rapid.Int64Range(0, 600),
		rapid.Int64Range(-10, 1<<33),
	).Draw(t, "cltv")
}

func TestC24DirectSingleHop(t *testing.T) { propC24DirectSingleHop(t) }

// FuzzC24DirectSingleHop drives the same property body with Go's coverage-guided fuzzer (thorough tier).
func FuzzC24DirectSingleHop(f *testing.F) { propC24DirectSingleHop(f) }

func propC24DirectSingleHop(t testing.TB) {
	col := stats.Get("C24.route")
	pkA := "02" + strings.Repeat("11", 32)
	pkB := "03" + strings.Repeat("22", 32)
	pbt.Run(t, func(t *rapid.T) {
		payee := rapid.SampledFrom([]string{pkA, pkB}).Draw(t, "payee")
		chanPeer := rapid.SampledFrom([]string{pkA, pkA, pkB}).Draw(t, "chanPeer")
		amt := rapid.OneOf(rapid.Uint64Range(0, 5_000_000_000_000), rapid.SampledFrom([]uint64{0, 1, 999, 1000, 2_100_000_000_000_000_000})).Draw(t, "amountMsat")
		cltv := genCltv(t)
		limit := rapid.SampledFrom([]uint32{0, 0, 32, 32, 32, 1, 31, 33, math.MaxInt32, math.MaxUint32}).Draw(t, "limit")
		blk, txi, out := rapid.IntRange(1, 900000).Draw(t, "blk"), rapid.IntRange(0, 3000).Draw(t, "txi"), rapid.IntRange(0, 5).Draw(t, "out")
		sep := rapid.SampledFrom([]string{"x", ":"}).Draw(t, "sep")
		scid := fmt.Sprintf("%d%s%d%s%d", blk, sep, txi, sep, out)
		xform := fmt.Sprintf("%dx%dx%d", blk, txi, out)
		desc := fmt.Sprintf("payee=%s peer=%s amt=%d cltv=%d limit=%d scid=%s", payee[:4], chanPeer[:4], amt, cltv, limit, scid)

		// ---- CLN ----
		if cltv >= math.MinInt32 && cltv <= math.MaxInt32 || true {
			b11 := &glightning.DecodedBolt11{Payee: payee, AmountMsat: glightning.AmountFromMSat(amt), MinFinalCltvExpiry: int(cltv), PaymentHash: strings.Repeat("ab", 32)}
			route, err := clightning.VerifBuildDirectClaimRoute(b11, scid, limit)
			inDomain := cltv >= 0 && cltv < math.MaxUint32 // what a BOLT11 decoder can return
			if err == nil {
				if len(route) != 1 {
					t.Fatalf("VKEY[C24/cln-hops] %s: route has %d hops", desc, len(route))
				}
				h := route[0]
				if h.Id != payee {
					t.Fatalf("VKEY[C24/cln-destination] %s: hop goes to %s", desc, h.Id)
				}
				if h.ShortChannelId != xform {
					t.Fatalf("VKEY[C24/cln-channel] %s: hop uses channel %q, swap channel is %q", desc, h.ShortChannelId, xform)
				}
				if h.AmountMsat.MSat() != amt {
					t.Fatalf("VKEY[C24/cln-amount] %s: hop carries %d msat", desc, h.AmountMsat.MSat())
				}
				if inDomain && uint64(h.Delay) != uint64(cltv)+1 {
					t.Fatalf("VKEY[C24/cln-delay] %s: delay %d, want final+1", desc, h.Delay)
				}
				if limit != 0 && (h.Delay > limit || !inDomain) {
					t.Fatalf("VKEY[C04/cln-route-exceeds-limit] %s: route delay %d returned with limit %d", desc, h.Delay, limit)
				}
			} else if inDomain && (limit == 0 || uint64(cltv)+1 <= uint64(limit)) {
				t.Fatalf("VKEY[C24/cln-refused] %s: route refused: %v", desc, err)
			}
		}

		// ---- LND ----
		chanId := uint64(blk)<<40 | uint64(txi)<<16 | uint64(out)
		decoded := &lnrpc.PayReq{Destination: payee, NumMsat: int64(amt), NumSatoshis: int64(amt / 1000), CltvExpiry: cltv, PaymentHash: strings.Repeat("ab", 32)}
		channel := &lnrpc.Channel{ChanId: chanId, RemotePubkey: chanPeer}
		payreq := "lnbcrt-test-payreq"
		req, err := lnd.VerifBuildDirectClaimPaymentRequest(payreq, decoded, channel, limit)
		if payee != chanPeer {
			if err == nil {
				t.Fatalf("VKEY[C24/lnd-foreign-destination] %s: request built although the invoice pays %s and the channel peer is %s", desc, payee[:6], chanPeer[:6])
			}
		} else if err == nil {
			if len(req.OutgoingChanIds) != 1 || req.OutgoingChanIds[0] != chanId || req.OutgoingChanId != 0 {
				t.Fatalf("VKEY[C24/lnd-channel] %s: outgoing channels %v/%d", desc, req.OutgoingChanIds, req.OutgoingChanId)
			}
			if req.MaxParts != 1 {
				t.Fatalf("VKEY[C24/lnd-parts] %s: max parts %d", desc, req.MaxParts)
			}
			if req.PaymentRequest != payreq || req.Amt != 0 || req.AmtMsat != 0 || len(req.Dest) != 0 || len(req.PaymentHash) != 0 {
				t.Fatalf("VKEY[C24/lnd-invoice] %s: request does not pay exactly the invoice: %+v", desc, req)
			}
			if limit != 0 {
				// the forced direct route carries final+padding; the limit handed to lnd must not admit more than limit
				if cltv < 0 || uint64(cltv)+lndBlockPadding > uint64(limit) {
					t.Fatalf("VKEY[C04/lnd-route-exceeds-limit] %s: request built for total %d with limit %d", desc, cltv+lndBlockPadding, limit)
				}
				if int64(req.CltvLimit) > int64(limit)+1 {
					t.Fatalf("VKEY[C04/lnd-cltv-limit] %s: CltvLimit %d > limit+1", desc, req.CltvLimit)
				}
			} else if cltv >= 0 && cltv < 1<<30 && int64(req.CltvLimit) != cltv+lndBlockPadding+1 {
				t.Fatalf("VKEY[C24/lnd-cltv-limit] %s: CltvLimit %d, want final+padding+1", desc, req.CltvLimit)
			}
		} else if cltv >= 0 && cltv < 1<<30 && (limit == 0 || (uint64(cltv)+lndBlockPadding <= uint64(limit) && limit < math.MaxInt32)) {
			t.Fatalf("VKEY[C24/lnd-refused] %s: request refused: %v", desc, err)
		}
		// helper from the swap package used by both builders
		if e := swap.ValidateTotalCLTVDelta(uint32(cltv&0xffff), limit); (e == nil) != (limit == 0 || uint32(cltv&0xffff) <= limit) {
			t.Fatalf("VKEY[C04/validate-total-cltv] ValidateTotalCLTVDelta(%d,%d) = %v", cltv&0xffff, limit, e)
		}
		nt := sep == ":" || payee != chanPeer || (limit != 0 && cltv >= 27 && cltv <= 33)
		cls := []string{"sep:" + sep, fmt.Sprintf("limit:%d", limit)}
		if payee != chanPeer {
			cls = append(cls, "payee-not-peer")
		}
		col.Case(desc, nt, map[string]interface{}{"payee_is_peer": payee == chanPeer, "amount_msat": amt, "cltv": cltv, "limit": limit, "scid": scid}, cls...)
	})
}
