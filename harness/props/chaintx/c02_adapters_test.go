package chaintx

import (
	"bytes"
	"crypto/sha256"
	"encoding/hex"
	"fmt"
	"testing"

	"github.com/btcsuite/btcd/btcutil"
	"github.com/elementsproject/peerswap/onchain"
	"github.com/elementsproject/peerswap/swap"
	"github.com/vulpemventures/go-elements/transaction"
	"pgregory.net/rapid"

	"verifharness/oracle/scriptpolicy"
	"verifharness/realtx"
	"verifharness/stats"
)

// TestC02AdapterScripts: the script the node's on-chain adapters actually commit to. TestC02Script
// decides what GetOpeningTxScript's template can be spent by; this test decides that the Liquid and
// Bitcoin adapters (output script for the watcher, opening transaction, validation) use that template
// with the swap's own parameters: both swap keys, the invoice's payment hash and the csv the property
// states for the chain and protocol version (1008 Bitcoin, 10080 Liquid protocol 7, 60 legacy Liquid).
func TestC02AdapterScripts(t *testing.T) {
	col := stats.Get("C02.adapters")
	rapid.Check(t, func(t *rapid.T) {
		seed := rapid.StringMatching(`[a-z]{6}`).Draw(t, "seed")
		r := realtx.NewRand(seed)
		taker, maker, blind := r.Key(), r.Key(), r.Key()
		preimage := r.Bytes32()
		hash := sha256.Sum256(preimage)
		takerPub, makerPub := taker.PubKey().SerializeCompressed(), maker.PubKey().SerializeCompressed()
		chain := rapid.SampledFrom([]string{"btc", "lbtc", "lbtc"}).Draw(t, "chain")
		version := rapid.SampledFrom([]uint8{7, 7, 6}).Draw(t, "version")
		// the csv the property states
		wantCSV := uint32(1008)
		asset, network := "", "regtest"
		if chain == "lbtc" {
			asset, network = "5ac9f65c0efcc4775e0baec4ec03abdde22473cd3cf33c0419ca290e0751b225", ""
			wantCSV = 10080
			if version == 6 {
				wantCSV = 60
			}
		}
		// what the node's swap data says for such a swap
		csv, _, _, _, _, err := swap.VerifTimelockPolicy(asset, network, version)
		if err != nil {
			t.Fatalf("timelock policy: %v", err)
		}
		if csv != wantCSV {
			t.Fatalf("VKEY[C02/adapter/policy-csv] chain %s protocol %d: the swap's csv is %d, the protocol says %d", chain, version, csv, wantCSV)
		}
		amount := rapid.Uint64Range(100_000, 50_000_000).Draw(t, "amount")
		params := &swap.OpeningParams{TakerPubkey: hex.EncodeToString(takerPub), MakerPubkey: hex.EncodeToString(makerPub),
			ClaimPaymentHash: hex.EncodeToString(hash[:]), Amount: amount, CSV: csv, BlindingKey: blind}
		want := realtx.P2WSH(scriptpolicy.Build(scriptpolicy.Params{Maker: makerPub, Taker: takerPub, Hash: hash[:], CSV: wantCSV}))
		desc := fmt.Sprintf("chain=%s version=%d csv=%d", chain, version, wantCSV)
		var got []byte
		if chain == "lbtc" {
			w := realtx.NewLiquidWallet(seed)
			l := onchain.NewLiquidOnChain(w, realtx.Net)
			got, err = l.GetOutputScript(params)
			if err != nil {
				t.Fatalf("GetOutputScript: %v", err)
			}
			if !bytes.Equal(got, want) {
				t.Fatalf("VKEY[C02/adapter/liquid-output-script] %s: LiquidOnChain.GetOutputScript is not the swap's opening script\n got  %x\n want %x", desc, got, want)
			}
			// the opening transaction the adapter builds pays to that script, and the validator accepts
			// exactly a transaction that does
			txHex, _, _, _, vout, err := l.CreateOpeningTransaction(params)
			if err != nil {
				t.Fatalf("CreateOpeningTransaction: %v", err)
			}
			tx, err := transaction.NewTxFromHex(txHex)
			if err != nil {
				t.Fatalf("parse: %v", err)
			}
			if int(vout) >= len(tx.Outputs) || !bytes.Equal(tx.Outputs[vout].Script, want) {
				t.Fatalf("VKEY[C02/adapter/liquid-opening-script] %s: the opening transaction's swap output (index %d) does not pay to the swap's opening script", desc, vout)
			}
			// a transaction paying the same amount to the script with ANOTHER csv must not validate
			other := uint32(60)
			if wantCSV == 60 {
				other = 10080
			}
			alt := *params
			alt.CSV = other
			if ok, _ := l.ValidateTx(&alt, txHex); ok {
				t.Fatalf("VKEY[C02/adapter/liquid-validator-ignores-csv] %s: a transaction locked with csv %d validates for a swap whose csv is %d", desc, wantCSV, other)
			}
			if ok, err := l.ValidateTx(params, txHex); !ok {
				t.Fatalf("VKEY[C02/adapter/liquid-validator-rejects-own] %s: the validator rejects the adapter's own opening transaction: %v", desc, err)
			}
		} else {
			b := onchain.NewBitcoinOnChain(nil, btcutil.Amount(1250), btcutil.Amount(253), realtx.BtcNet)
			got, err = b.GetOutputScript(params)
			if err != nil {
				t.Fatalf("GetOutputScript: %v", err)
			}
			if !bytes.Equal(got, want) {
				t.Fatalf("VKEY[C02/adapter/bitcoin-output-script] %s: BitcoinOnChain.GetOutputScript is not the swap's opening script\n got  %x\n want %x", desc, got, want)
			}
		}
		col.Case(desc+seed, true, map[string]interface{}{"chain": chain, "version": version, "csv": wantCSV}, "chain:"+chain, fmt.Sprintf("csv:%d", wantCSV))
	})
}
