package chaintx

import (
	"bytes"
	"crypto/sha256"
	"encoding/hex"
	"fmt"
	"testing"

	"github.com/btcsuite/btcd/btcec/v2"
	"github.com/btcsuite/btcd/btcec/v2/ecdsa"
	"github.com/btcsuite/btcd/chaincfg/chainhash"
	"github.com/btcsuite/btcd/txscript"
	"github.com/btcsuite/btcd/wire"
	"github.com/elementsproject/peerswap/onchain"
	"github.com/elementsproject/peerswap/swap"
	"pgregory.net/rapid"

	"verifharness/oracle/scriptpolicy"
	"verifharness/pbt"
	"verifharness/stats"
)

// consensusFlags are the script flags btcd's block validation enables for
// segwit-v0 spends (no policy-only flags).
const consensusFlags = txscript.ScriptBip16 | txscript.ScriptVerifyDERSignatures |
	txscript.ScriptVerifyCheckLockTimeVerify | txscript.ScriptVerifyCheckSequenceVerify |
	txscript.ScriptVerifyWitness | txscript.ScriptStrictMultiSig | txscript.ScriptVerifyTaproot

type witItem struct {
	name  string
	data  []byte
	sigOf string // "taker"/"maker"/"stranger" if a valid signature by that key over this tx
	pre   bool   // is a 32-byte preimage of H
}

func privFromBytes(b []byte) *btcec.PrivateKey {
	var k [32]byte
	copy(k[:], b)
	k[0] &= 0x7f // stay below the group order
	if bytes.Equal(k[:], make([]byte, 32)) {
		k[31] = 1
	}
	p, _ := btcec.PrivKeyFromBytes(k[:])
	return p
}

var genKey = rapid.Custom(func(t *rapid.T) *btcec.PrivateKey {
	return privFromBytes(rapid.SliceOfN(rapid.Byte(), 32, 32).Draw(t, "key"))
})

func csvGen() *rapid.Generator[uint32] {
	return rapid.OneOf(
		rapid.SampledFrom([]uint32{1008, 10080, 60}),
		rapid.Uint32Range(1, 65535),
		rapid.SampledFrom([]uint32{1, 16, 17, 127, 128, 255, 256, 32767, 32768, 65535}),
	)
}

func seqGen(csv uint32) *rapid.Generator[uint32] {
	return rapid.OneOf(
		rapid.SampledFrom([]uint32{0, csv - 1, csv, csv + 1, csv | 1<<22, csv | 1<<31, 0xffffffff, 0xfffffffe, csv | 0x10000, csv | 0x7fff0000&^(1<<22)}),
		rapid.Uint32(),
		rapid.Uint32Range(0, 70000),
	)
}

func TestC02Script(t *testing.T) { propC02Script(t) }

// FuzzC02Script drives the same property body with Go's coverage-guided fuzzer (thorough tier).
func FuzzC02Script(f *testing.F) { propC02Script(f) }

func propC02Script(t testing.TB) {
	col := stats.Get("C02.script")
	pbt.Run(t, func(t *rapid.T) {
		taker := genKey.Draw(t, "taker")
		maker := genKey.Draw(t, "maker")
		stranger := genKey.Draw(t, "stranger")
		if bytes.Equal(taker.Serialize(), maker.Serialize()) || bytes.Equal(stranger.Serialize(), maker.Serialize()) || bytes.Equal(stranger.Serialize(), taker.Serialize()) {
			t.Skip("equal keys")
		}
		preimage := rapid.SliceOfN(rapid.Byte(), 32, 32).Draw(t, "preimage")
		hash := sha256.Sum256(preimage)
		csv := csvGen().Draw(t, "csv")
		version := rapid.SampledFrom([]int32{1, 2, 2, 2, 3}).Draw(t, "version")
		seq := seqGen(csv).Draw(t, "seq")
		amount := rapid.Int64Range(1000, 21_000_000_0000_0000).Draw(t, "amount")

		takerPub := taker.PubKey().SerializeCompressed()
		makerPub := maker.PubKey().SerializeCompressed()
		script, err := onchain.GetOpeningTxScript(takerPub, makerPub, hash[:], csv)
		if err != nil {
			t.Fatalf("GetOpeningTxScript: %v", err)
		}
		// ParamsToTxScript (hex front-end used by the swap code) must give the same script.
		script2, err := onchain.ParamsToTxScript(&swap.OpeningParams{
			TakerPubkey: hex.EncodeToString(takerPub), MakerPubkey: hex.EncodeToString(makerPub),
			ClaimPaymentHash: hex.EncodeToString(hash[:])}, csv)
		if err != nil || !bytes.Equal(script, script2) {
			t.Fatalf("VKEY[C02/params-script-mismatch] ParamsToTxScript differs: %v", err)
		}

		if ref := scriptpolicy.Build(scriptpolicy.Params{Maker: makerPub, Taker: takerPub, Hash: hash[:], CSV: csv}); !bytes.Equal(ref, script) {
			t.Fatalf("VKEY[C02/script-differs-from-template] csv=%d\n repo %x\n ref  %x", csv, script, ref)
		}
		wsh := sha256.Sum256(script)
		pkScript, _ := txscript.NewScriptBuilder().AddOp(txscript.OP_0).AddData(wsh[:]).Script()

		tx := wire.NewMsgTx(version)
		var prev chainhash.Hash
		copy(prev[:], rapid.SliceOfN(rapid.Byte(), 32, 32).Draw(t, "prevhash"))
		in := wire.NewTxIn(wire.NewOutPoint(&prev, rapid.Uint32Range(0, 3).Draw(t, "previdx")), nil, nil)
		in.Sequence = seq
		tx.AddTxIn(in)
		tx.AddTxOut(wire.NewTxOut(amount-500, []byte{0x00, 0x14, 1, 2, 3, 4, 5, 6, 7, 8, 9, 10, 11, 12, 13, 14, 15, 16, 17, 18, 19, 20}))

		fetcher := txscript.NewCannedPrevOutputFetcher(pkScript, amount)
		sign := func(k *btcec.PrivateKey, amt int64, ht txscript.SigHashType, sc []byte) []byte {
			sh := txscript.NewTxSigHashes(tx, fetcher)
			sig, err := txscript.RawTxInWitnessSignature(tx, sh, 0, amt, sc, ht, k)
			if err != nil {
				t.Fatalf("sign: %v", err)
			}
			return sig
		}
		hts := []txscript.SigHashType{txscript.SigHashAll, txscript.SigHashNone, txscript.SigHashSingle, txscript.SigHashAll | txscript.SigHashAnyOneCanPay}
		ht := rapid.SampledFrom(hts).Draw(t, "hashtype")
		wrong32 := rapid.SliceOfN(rapid.Byte(), 32, 32).Draw(t, "wrong32")
		junk := rapid.SliceOfN(rapid.Byte(), 0, 40).Draw(t, "junk")
		otherScript, _ := onchain.GetOpeningTxScript(makerPub, takerPub, hash[:], csv) // roles swapped

		alphabet := []witItem{
			{name: "sigT", data: sign(taker, amount, txscript.SigHashAll, script), sigOf: "taker"},
			{name: "sigM", data: sign(maker, amount, txscript.SigHashAll, script), sigOf: "maker"},
			{name: "sigS", data: sign(stranger, amount, txscript.SigHashAll, script), sigOf: "stranger"},
			{name: "sigT-ht", data: sign(taker, amount, ht, script), sigOf: "taker"},
			{name: "sigM-ht", data: sign(maker, amount, ht, script), sigOf: "maker"},
			{name: "sigT-wrongamt", data: sign(taker, amount+1, txscript.SigHashAll, script)},
			{name: "sigM-wrongamt", data: sign(maker, amount-1, txscript.SigHashAll, script)},
			{name: "sigT-otherscript", data: sign(taker, amount, txscript.SigHashAll, otherScript)},
			{name: "sigM-otherscript", data: sign(maker, amount, txscript.SigHashAll, otherScript)},
			{name: "empty", data: []byte{}},
			{name: "one", data: []byte{1}},
			{name: "zero", data: []byte{0}},
			{name: "preimage", data: preimage, pre: true},
			{name: "wrong32", data: wrong32, pre: bytes.Equal(wrong32, preimage)},
			{name: "hash", data: hash[:]},
			{name: "junk", data: junk},
			{name: "pubT", data: takerPub},
			{name: "pubM", data: makerPub},
		}
		// Canonical witnesses from the repo's own builders are a forced class.
		strip := func(sig []byte) []byte { return sig[:len(sig)-1] }
		canon := map[string][][]byte{
			"canon-preimage": onchain.GetPreimageWitness(strip(alphabet[0].data), preimage, script),
			"canon-csv":      onchain.GetCsvWitness(strip(alphabet[1].data), script),
			"canon-coop":     onchain.GetCooperativeWitness(strip(alphabet[0].data), strip(alphabet[1].data), script),
		}
		mode := rapid.SampledFrom([]string{"random", "random", "random", "canon-preimage", "canon-csv", "canon-coop", "near-preimage", "near-csv", "near-coop"}).Draw(t, "mode")
		var witness [][]byte
		var names []string
		byName := map[string]witItem{}
		for _, it := range alphabet {
			byName[it.name] = it
		}
		present := map[string]bool{} // sigOf/pre facts present in the witness
		addItem := func(it witItem) {
			witness = append(witness, it.data)
			names = append(names, it.name)
			if it.sigOf != "" {
				present[it.sigOf] = true
			}
			if it.pre {
				present["pre"] = true
			}
		}
		usedScript := script
		switch {
		case mode == "random":
			n := rapid.IntRange(0, 6).Draw(t, "n")
			for i := 0; i < n; i++ {
				addItem(alphabet[rapid.IntRange(0, len(alphabet)-1).Draw(t, "item")])
			}
		case mode[:5] == "canon":
			w := canon[mode]
			for _, d := range w[:len(w)-1] {
				found := false
				for _, it := range alphabet {
					if bytes.Equal(it.data, d) {
						addItem(it)
						found = true
						break
					}
				}
				if !found {
					t.Fatalf("canonical witness item not in alphabet")
				}
			}
		default:
			// a canonical shape with exactly one position replaced by a random item
			shapes := map[string][]string{
				"near-preimage": {"sigT", "preimage", "empty", "empty"},
				"near-csv":      {"sigM"},
				"near-coop":     {"sigT", "sigM", "empty"},
			}
			sh := append([]string{}, shapes[mode]...)
			pos := rapid.IntRange(0, len(sh)-1).Draw(t, "pos")
			sh[pos] = alphabet[rapid.IntRange(0, len(alphabet)-1).Draw(t, "repl")].name
			for _, n := range sh {
				addItem(byName[n])
			}
		}
		if rapid.IntRange(0, 19).Draw(t, "mutscript") == 0 {
			usedScript = otherScript
			names = append(names, "<otherscript>")
		}
		full := append(append([][]byte{}, witness...), usedScript)
		tx.TxIn[0].Witness = full

		run := func(flags txscript.ScriptFlags) error {
			sh := txscript.NewTxSigHashes(tx, fetcher)
			vm, err := txscript.NewEngine(pkScript, tx, 0, flags, nil, sh, amount, fetcher)
			if err != nil {
				return err
			}
			return vm.Execute()
		}
		errCons := run(consensusFlags)
		errStd := run(txscript.StandardVerifyFlags)
		acceptCons := errCons == nil
		acceptStd := errStd == nil

		older := scriptpolicy.Older(scriptpolicy.TxCtx{Version: version, Sequence: seq}, csv)
		policy := (present["taker"] && present["pre"]) || (present["taker"] && present["maker"]) || (present["maker"] && older)
		desc := fmt.Sprintf("csv=%d ver=%d seq=%#x wit=%v", csv, version, seq, names)

		if acceptStd && !acceptCons {
			t.Fatalf("harness: standard accepts but consensus rejects (%s): %v", desc, errCons)
		}
		if acceptCons && !bytes.Equal(usedScript, script) {
			t.Fatalf("VKEY[C02/foreign-script-accepted] %s", desc)
		}
		if acceptCons && !policy {
			t.Fatalf("VKEY[C02/unintended-spend] engine accepted a witness outside the three paths: %s", desc)
		}
		// Completeness: canonical witnesses are accepted under standard rules when their precondition holds.
		if mode[:5] == "canon" && bytes.Equal(usedScript, script) {
			want := true
			if mode == "canon-csv" {
				want = older
			}
			if acceptStd != want {
				t.Fatalf("VKEY[C02/canonical-%s] canonical witness accept=%v want=%v (%s): %v", mode, acceptStd, want, desc, errStd)
			}
		}

		// Differential: reference interpreter vs btcd (consensus rules).
		if bytes.Equal(usedScript, script) {
			checker := func(pub, sig []byte) (bool, error) {
				if len(sig) < 1 {
					return false, nil
				}
				ht := txscript.SigHashType(sig[len(sig)-1])
				parsed, err := ecdsa.ParseDERSignature(sig[:len(sig)-1])
				if err != nil {
					return false, err
				}
				pk, err := btcec.ParsePubKey(pub)
				if err != nil {
					return false, err
				}
				sh := txscript.NewTxSigHashes(tx, fetcher)
				h, err := txscript.CalcWitnessSigHash(script, sh, ht, tx, 0, amount)
				if err != nil {
					return false, err
				}
				return parsed.Verify(h, pk), nil
			}
			ok, _ := scriptpolicy.Eval(scriptpolicy.Params{Maker: makerPub, Taker: takerPub, Hash: hash[:], CSV: csv},
				witness, scriptpolicy.TxCtx{Version: version, Sequence: seq}, checker)
			if ok != acceptCons {
				t.Fatalf("oracle interpreter disagrees with btcd: interp=%v btcd=%v (%v) %s", ok, acceptCons, errCons, desc)
			}
		}

		nt := acceptCons || present["taker"] || present["maker"] || present["stranger"]
		cls := []string{"mode:" + mode}
		if acceptCons {
			cls = append(cls, "accepted")
		}
		if acceptCons && !acceptStd {
			cls = append(cls, "accepted-consensus-only")
		}
		if older {
			cls = append(cls, "older-true")
		}
		col.Case(desc+hex.EncodeToString(preimage[:4]), nt, map[string]interface{}{"csv": csv, "version": version, "sequence": seq, "witness": names, "accept_consensus": acceptCons, "accept_standard": acceptStd}, cls...)
	})
}
