package chaintx

import (
	"bytes"
	"context"
	"crypto/sha256"
	"encoding/hex"
	"errors"
	"fmt"
	"math/big"
	"testing"

	"github.com/btcsuite/btcd/btcutil"
	"github.com/btcsuite/btcd/wire"
	"github.com/elementsproject/peerswap/lnd"
	"github.com/elementsproject/peerswap/onchain"
	"github.com/elementsproject/peerswap/swap"
	"pgregory.net/rapid"

	"verifharness/oracle/scriptpolicy"
	"verifharness/realtx"
	"verifharness/stats"
)

func TestC03BitcoinSpendsLndAdapter(t *testing.T) {
	col := stats.Get("C03.btc-lnd")
	rapid.Check(t, func(t *rapid.T) {
		seed := rapid.StringMatching(`[a-z]{6}`).Draw(t, "seed")
		w := realtx.NewBtcWallet(seed)
		w.Inputs = rapid.IntRange(1, 3).Draw(t, "inputs")
		w.NestedInputs = rapid.SampledFrom([]int{0, 0, 1, 3}).Draw(t, "nestedSegwitInputs")
		w.OutsBefore = rapid.IntRange(0, 3).Draw(t, "outsBefore")
		w.OutsAfter = rapid.IntRange(0, 2).Draw(t, "outsAfter")
		w.EqualValue = w.OutsBefore > 0 && rapid.IntRange(0, 3).Draw(t, "equalValueBefore") == 0
		est := &realtx.FixedEstimator{Rate: btcutil.Amount(rapid.SampledFrom([]int64{0, 253, 1000, 2500, 12500, 100_000}).Draw(t, "feeRate"))}
		if rapid.IntRange(0, 4).Draw(t, "estErr") == 0 {
			est.Err = errors.New("estimator down")
		}
		fallback, floor := btcutil.Amount(1250), btcutil.Amount(253)
		chain := onchain.NewBitcoinOnChain(est, fallback, floor, realtx.BtcNet)
		cl := lnd.VerifNewClient(context.Background(), w.LN(), w.Kit(), nil, chain)
		r := realtx.NewRand(seed + "keys")
		taker, maker := r.Key(), r.Key()
		preimage := r.Bytes32()
		hash := sha256.Sum256(preimage)
		amount := rapid.Uint64Range(100_000, 50_000_000).Draw(t, "amount")
		takerPub, makerPub := taker.PubKey().SerializeCompressed(), maker.PubKey().SerializeCompressed()
		params := &swap.OpeningParams{TakerPubkey: hex.EncodeToString(takerPub), MakerPubkey: hex.EncodeToString(makerPub),
			ClaimPaymentHash: hex.EncodeToString(hash[:]), Amount: amount, CSV: 1008}
		txHex, _, txid, _, vout, err := cl.CreateOpeningTransaction(params)
		if err != nil {
			t.Fatalf("CreateOpeningTransaction: %v", err)
		}
		pub := w.LastPublished()
		if pub == nil || pub.ID != txid || pub.Hex != txHex {
			t.Fatalf("VKEY[C08/btc/txid] opening tx reported as %s, published %v", txid, pub)
		}
		opening := pub.Tx
		// ground truth: the swap output by script
		want := realtx.P2WSH(scriptpolicy.Build(scriptpolicy.Params{Maker: makerPub, Taker: takerPub, Hash: hash[:], CSV: 1008}))
		trueVout := -1
		for i, o := range opening.TxOut {
			if bytes.Equal(o.PkScript, want) && o.Value == int64(amount) {
				trueVout = i
			}
		}
		if trueVout < 0 {
			t.Fatalf("VKEY[C08/btc/no-swap-output] opening tx has no output paying %d to the swap script", amount)
		}
		desc := fmt.Sprintf("amount=%d inputs=%d before=%d after=%d equal=%v rate=%d err=%v", amount, w.Inputs, w.OutsBefore, w.OutsAfter, w.EqualValue, est.Rate, est.Err != nil)
		if int(vout) != trueVout {
			t.Fatalf("VKEY[C08/btc/wrong-vout] %s: adapter reports swap output index %d, it is %d", desc, vout, trueVout)
		}
		// the opening transaction may also be the peer's: any transaction the validator accepts is in the
		// domain, e.g. one with further outputs to the swap script that carry another value
		decoy := rapid.SampledFrom([]string{"none", "none", "none", "same-script-smaller-before", "same-script-larger-before", "same-script-after", "same-script-dust-before"}).Draw(t, "peerDecoy")
		if decoy != "none" {
			peerTx := opening.Copy()
			var dv int64
			switch decoy {
			case "same-script-smaller-before", "same-script-after":
				dv = int64(amount) - int64(rapid.SampledFrom([]uint64{1, 1000, amount / 2}).Draw(t, "decoyDelta"))
			case "same-script-larger-before":
				dv = int64(amount) + int64(rapid.SampledFrom([]uint64{1, 1000, amount}).Draw(t, "decoyDelta"))
			case "same-script-dust-before":
				dv = 330
			}
			d := wire.NewTxOut(dv, want)
			if decoy == "same-script-after" {
				peerTx.TxOut = append(peerTx.TxOut, d)
			} else {
				peerTx.TxOut = append([]*wire.TxOut{d}, peerTx.TxOut...)
			}
			var pb bytes.Buffer
			_ = peerTx.Serialize(&pb)
			opening, txHex = peerTx, hex.EncodeToString(pb.Bytes())
			trueVout = -1
			for i, o := range opening.TxOut {
				if bytes.Equal(o.PkScript, want) && o.Value == int64(amount) {
					trueVout = i
				}
			}
			desc += " peerDecoy=" + decoy
		}
		valid, verr := chain.ValidateTx(params, txHex)
		kind := rapid.SampledFrom([]string{"preimage", "csv", "coop"}).Draw(t, "kind")
		var cerr error
		switch kind {
		case "preimage":
			_, _, _, cerr = cl.CreatePreimageSpendingTransaction(params, &swap.ClaimParams{Preimage: hex.EncodeToString(preimage), Signer: keySigner{taker}, OpeningTxHex: txHex})
		case "csv":
			_, _, _, cerr = cl.CreateCsvSpendingTransaction(params, &swap.ClaimParams{Signer: keySigner{maker}, OpeningTxHex: txHex})
		case "coop":
			_, _, _, cerr = cl.CreateCoopSpendingTransaction(params, &swap.ClaimParams{Signer: keySigner{maker}, OpeningTxHex: txHex}, keySigner{taker})
		}
		if !valid || verr != nil {
			// the validator refuses this opening transaction (an earlier output has the same value): C03 only
			// quantifies over opening transactions the validator accepts
			col.Case(desc+kind, false, nil, "opening-not-accepted-by-validator")
			return
		}
		if cerr != nil {
			t.Fatalf("VKEY[C03/btc/%s-build-failed] %s: %v", kind, desc, cerr)
		}
		spend := w.LastPublished().Tx
		if err := checkBtcSpend(kind, spend, opening, uint32(trueVout), amount, w, est, fallback, floor); err != nil {
			t.Fatalf("VKEY[C03/btc/%s-spend-invalid] %s: %v", kind, desc, err)
		}
		col.Case(desc+kind, trueVout != 0 || len(opening.TxOut) >= 2, map[string]interface{}{"kind": kind, "amount": amount, "swap_vout": trueVout, "outputs": len(opening.TxOut)}, "kind:"+kind, fmt.Sprintf("vout:%d", trueVout), "peer-decoy:"+decoy, fmt.Sprintf("nested-inputs:%d", min(w.NestedInputs, w.Inputs)))
	})
}

func checkBtcSpend(kind string, spend, opening *wire.MsgTx, trueVout uint32, amount uint64, w *realtx.BtcWallet, est *realtx.FixedEstimator, fallback, floor btcutil.Amount) error {
	if len(spend.TxIn) != 1 {
		return fmt.Errorf("inputs: %d", len(spend.TxIn))
	}
	in := spend.TxIn[0]
	if in.PreviousOutPoint.Hash != opening.TxHash() || in.PreviousOutPoint.Index != trueVout {
		return fmt.Errorf("spends %s, swap output is %s:%d", in.PreviousOutPoint, opening.TxHash(), trueVout)
	}
	if err := realtx.VerifyBtcSpend(spend, opening.TxOut[trueVout]); err != nil {
		return fmt.Errorf("script engine rejects the spend: %v", err)
	}
	if kind == "csv" {
		if spend.Version < 2 || in.Sequence != 1008 {
			return fmt.Errorf("csv refund with version %d sequence %d", spend.Version, in.Sequence)
		}
	} else if in.Sequence&0xffff != 0 && in.Sequence&(1<<31) == 0 {
		return fmt.Errorf("%s spend carries a relative lock (sequence %d)", kind, in.Sequence)
	}
	if len(spend.TxOut) != 1 {
		return fmt.Errorf("outputs: %d", len(spend.TxOut))
	}
	_, script := w.Address()
	if !bytes.Equal(spend.TxOut[0].PkScript, script) {
		return fmt.Errorf("pays to %x, not to the wallet's address", spend.TxOut[0].PkScript)
	}
	fee := int64(amount) - spend.TxOut[0].Value
	if fee < 0 {
		return fmt.Errorf("output %d exceeds the swap amount %d", spend.TxOut[0].Value, amount)
	}
	// fee bound implied by the estimator answer: rate(sat/kw)*4/1000 per vbyte over (stripped size + 74) or the
	// 250 vbyte refund estimate, plus the constant 200 sat the code subtracts
	rate := est.Rate
	if est.Err != nil || rate == 0 {
		rate = fallback
	}
	if rate < floor {
		rate = floor
	}
	size := int64(spend.SerializeSizeStripped()) + 74
	if kind == "coop" {
		size = 250
	}
	bound := new(big.Int).Mul(big.NewInt(int64(rate)*4), big.NewInt(size))
	bound.Div(bound, big.NewInt(1000))
	bound.Add(bound, big.NewInt(201))
	if big.NewInt(fee).Cmp(bound) > 0 {
		return fmt.Errorf("deducts %d sat, bound from the fee estimate is %s", fee, bound)
	}
	return nil
}
