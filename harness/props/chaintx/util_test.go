package chaintx

import "github.com/vulpemventures/go-elements/address"

func addressToScript(a string) ([]byte, error) { return address.ToOutputScript(a) }
