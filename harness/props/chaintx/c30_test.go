package chaintx

import (
	"errors"
	"fmt"
	"math/big"
	"regexp"
	"strings"
	"testing"

	"github.com/btcsuite/btcd/btcutil"
	"github.com/btcsuite/btcd/chaincfg"
	"github.com/elementsproject/glightning/gbitcoin"
	"github.com/elementsproject/peerswap/onchain"
	"github.com/elementsproject/peerswap/version"
	"pgregory.net/rapid"

	"verifharness/pbt"
	"verifharness/stats"
)

type fixedEstimator struct {
	rate btcutil.Amount
	err  error
}

func (f *fixedEstimator) EstimateFeePerKW(uint32) (btcutil.Amount, error) { return f.rate, f.err }
func (f *fixedEstimator) Start() error                                    { return nil }

type fakeBitcoind struct {
	feeBtcPerKb float64
	feeErr      error
	minBtcPerKb float64
	minErr      error
}

func (f *fakeBitcoind) GetMempoolInfo() (*gbitcoin.MempoolInfo, error) {
	if f.minErr != nil {
		return nil, f.minErr
	}
	return &gbitcoin.MempoolInfo{MempoolMinFee: f.minBtcPerKb}, nil
}
func (f *fakeBitcoind) EstimateFee(uint32, string) (*gbitcoin.FeeResponse, error) {
	if f.feeErr != nil {
		return nil, f.feeErr
	}
	return &gbitcoin.FeeResponse{FeeRate: f.feeBtcPerKb}, nil
}
func (f *fakeBitcoind) Ping() (bool, error) { return true, nil }

var digitsRe = regexp.MustCompile(`[0-9]+`)

func TestC30FeeFloor(t *testing.T) { propC30FeeFloor(t) }

// FuzzC30FeeFloor drives the same property body with Go's coverage-guided fuzzer (thorough tier).
func FuzzC30FeeFloor(f *testing.F) { propC30FeeFloor(f) }

func propC30FeeFloor(t testing.TB) {
	col := stats.Get("C30.fee")
	pbt.Run(t, func(t *rapid.T) {
		// the floor comes from the connected node's version string
		ver := rapid.OneOf(
			rapid.SampledFrom([]string{"/Satoshi:29.2.0/", "/Satoshi:29.1.0/", "/Satoshi:30.0.0/", "/Satoshi:28.9.9/", "/Satoshi:29.2/", "v29.1", "29", "garbage", "", "/Satoshi:0.21.1/", "/Satoshi:29.10.0/", "/Satoshi:129.0.0/"}),
			rapid.Custom(func(t *rapid.T) string {
				return fmt.Sprintf("/Satoshi:%d.%d.%d/", rapid.IntRange(0, 40).Draw(t, "maj"), rapid.IntRange(0, 12).Draw(t, "min"), rapid.IntRange(0, 3).Draw(t, "pat"))
			}),
		).Draw(t, "subversion")
		floor, norm := onchain.DetermineFeeFloor(ver)
		// oracle for the floor: first digit runs are major.minor
		parts := digitsRe.FindAllString(ver, -1)
		wantFloor := btcutil.Amount(253)
		if len(parts) > 0 {
			maj, _ := new(big.Int).SetString(parts[0], 10)
			min := big.NewInt(0)
			// the minor component only counts when it directly follows "major."
			if m := regexp.MustCompile(`^[^0-9]*[0-9]+\.([0-9]+)`).FindStringSubmatch(ver); m != nil {
				min, _ = new(big.Int).SetString(m[1], 10)
			}
			if maj.Cmp(big.NewInt(29)) > 0 || (maj.Cmp(big.NewInt(29)) == 0 && min.Cmp(big.NewInt(2)) >= 0) {
				wantFloor = 25
			}
		}
		if floor != wantFloor {
			t.Fatalf("VKEY[C30/floor-for-version] DetermineFeeFloor(%q) = %d (%s), want %d", ver, floor, norm, wantFloor)
		}

		answer := rapid.OneOf(rapid.SampledFrom([]int64{0, 1, 24, 25, 26, 252, 253, 254, 1000, 12500}), rapid.Int64Range(0, 10_000_000)).Draw(t, "answer")
		failing := rapid.IntRange(0, 4).Draw(t, "estErr") == 0
		fallback := rapid.SampledFrom([]int64{1, 25, 253, 1000, 12500}).Draw(t, "fallback")
		size := rapid.Int64Range(1, 100_000).Draw(t, "size")
		est := &fixedEstimator{rate: btcutil.Amount(answer)}
		if failing {
			est.err = errors.New("estimator down")
		}
		b := onchain.NewBitcoinOnChain(est, btcutil.Amount(fallback), floor, &chaincfg.RegressionNetParams)
		fee, err := b.GetFee(size)
		if err != nil {
			t.Fatalf("GetFee: %v", err)
		}
		rate := answer
		if failing || answer == 0 {
			rate = fallback
		}
		if rate < int64(floor) {
			rate = int64(floor)
		}
		exact := new(big.Int).Mul(big.NewInt(rate*4), big.NewInt(size))
		exact.Div(exact, big.NewInt(1000))
		diff := new(big.Int).Sub(new(big.Int).SetUint64(fee), exact)
		if diff.CmpAbs(big.NewInt(1)) > 0 {
			t.Fatalf("VKEY[C30/fee-rate] GetFee(size=%d) = %d with answer=%d err=%v fallback=%d floor=%d; model rate %d gives %s", size, fee, answer, failing, fallback, floor, rate, exact)
		}
		floorFee := new(big.Int).Mul(big.NewInt(int64(floor)*4), big.NewInt(size))
		floorFee.Div(floorFee, big.NewInt(1000))
		if new(big.Int).SetUint64(fee).Cmp(new(big.Int).Sub(floorFee, big.NewInt(1))) < 0 {
			t.Fatalf("VKEY[C30/below-floor] fee %d is below the floor fee %s (floor %d sat/kw, size %d)", fee, floorFee, floor, size)
		}

		// the bitcoind estimator applies the same floor / fallback rules to what it hands out
		fb := &fakeBitcoind{feeBtcPerKb: float64(rapid.Int64Range(0, 2_000_000).Draw(t, "btcPerKbSat")) / 1e8, minBtcPerKb: float64(rapid.Int64Range(0, 5000).Draw(t, "minSat")) / 1e8}
		if rapid.IntRange(0, 4).Draw(t, "rpcErr") == 0 {
			fb.feeErr = errors.New("rpc error")
		}
		ge, err := onchain.NewGBitcoindEstimator(fb, "ECONOMICAL", btcutil.Amount(fallback), floor)
		if err != nil {
			t.Fatalf("NewGBitcoindEstimator: %v", err)
		}
		started := rapid.Bool().Draw(t, "started")
		if started {
			if err := ge.Start(); err != nil {
				t.Fatalf("Start: %v", err)
			}
		}
		r, err := ge.EstimateFeePerKW(6)
		if err != nil {
			t.Fatalf("EstimateFeePerKW: %v", err)
		}
		if r < floor {
			t.Fatalf("VKEY[C30/estimator-below-floor] GBitcoindEstimator returned %d sat/kw below floor %d (fee=%v err=%v)", r, floor, fb.feeBtcPerKb, fb.feeErr)
		}
		satPerKb, _ := btcutil.NewAmount(fb.feeBtcPerKb)
		if fb.feeErr != nil || satPerKb/4 == 0 {
			// estimation failed or is zero: the configured fallback is used (never below the floor)
			wantR := btcutil.Amount(fallback)
			if wantR < floor {
				wantR = floor
			}
			minFee, _ := btcutil.NewAmount(fb.minBtcPerKb)
			if fb.feeErr == nil && satPerKb/4 == 0 {
				// a zero estimate is first raised to the node's minimum fee, which is a valid non-zero answer
				lo := floor
				if started && minFee/4 > lo {
					lo = minFee / 4
				}
				if r != lo {
					t.Fatalf("VKEY[C30/zero-estimate] estimate 0 -> %d, want min fee %d", r, lo)
				}
			} else if r < wantR && !(started && r >= floor && r >= minFee/4) {
				t.Fatalf("VKEY[C30/fallback] estimator error -> %d, want fallback %d (floor %d)", r, wantR, floor)
			}
		}
		nt := failing || answer == 0 || answer < int64(floor)
		cls := []string{fmt.Sprintf("floor:%d", floor)}
		if failing {
			cls = append(cls, "estimator-error")
		}
		if answer < int64(floor) {
			cls = append(cls, "answer-below-floor")
		}
		col.Case(fmt.Sprintf("%s|%d|%v|%d|%d", ver, answer, failing, fallback, size), nt, map[string]interface{}{"subversion": ver, "floor": floor, "answer": answer, "estimator_error": failing, "fallback": fallback, "size": size, "fee": fee}, cls...)
	})
}

func verComponents(s string) []*big.Int {
	var out []*big.Int
	for _, p := range digitsRe.FindAllString(s, -1) {
		n, _ := new(big.Int).SetString(p, 10)
		out = append(out, n)
	}
	return out
}

// cmpModel: lexicographic comparison of zero-padded component vectors.
func cmpModel(a, b string) int {
	ca, cb := verComponents(a), verComponents(b)
	for len(ca) < len(cb) {
		ca = append(ca, big.NewInt(0))
	}
	for len(cb) < len(ca) {
		cb = append(cb, big.NewInt(0))
	}
	for i := range ca {
		if c := ca[i].Cmp(cb[i]); c != 0 {
			return c
		}
	}
	return 0
}

func genVersion(t *rapid.T, label string) string {
	return rapid.OneOf(
		rapid.SampledFrom([]string{"v23.05", "v23.5", "v23.05.1", "23.05rc1", "v0.1.2", "v22.11rc1", "", "v", "1", "01", "v1.0.0.0", "v1..2", "v23.05-modded", "v023.05", "10.0", "9.9", "v24.02~beta"}),
		rapid.Custom(func(t *rapid.T) string {
			n := rapid.IntRange(1, 5).Draw(t, "ncomp")
			var parts []string
			for i := 0; i < n; i++ {
				parts = append(parts, rapid.SampledFrom([]string{"0", "1", "2", "05", "5", "9", "10", "11", "23", "100", "007"}).Draw(t, "comp"))
			}
			pre := rapid.SampledFrom([]string{"", "v", "V", "cln-"}).Draw(t, "pre")
			suf := rapid.SampledFrom([]string{"", "rc1", "-dirty", "rc", "-beta2"}).Draw(t, "suf")
			return pre + strings.Join(parts, ".") + suf
		}),
	).Draw(t, label)
}

func TestC30VersionOrder(t *testing.T) { propC30VersionOrder(t) }

// FuzzC30VersionOrder drives the same property body with Go's coverage-guided fuzzer (thorough tier).
func FuzzC30VersionOrder(f *testing.F) { propC30VersionOrder(f) }

func propC30VersionOrder(t testing.TB) {
	col := stats.Get("C30.version")
	pbt.Run(t, func(t *rapid.T) {
		a, b, c := genVersion(t, "a"), genVersion(t, "b"), genVersion(t, "c")
		ge := func(x, y string) bool {
			r, err := version.CompareVersionStrings(x, y)
			if err != nil {
				t.Fatalf("VKEY[C30/compare-error] CompareVersionStrings(%q,%q): %v", x, y, err)
			}
			return r
		}
		for _, p := range [][2]string{{a, b}, {b, a}, {a, c}, {b, c}, {c, a}, {c, b}, {a, a}} {
			want := cmpModel(p[0], p[1]) >= 0
			if got := ge(p[0], p[1]); got != want {
				t.Fatalf("VKEY[C30/version-order] CompareVersionStrings(%q,%q)=%v, numeric components give %v", p[0], p[1], got, want)
			}
		}
		// order laws directly on the implementation
		if !ge(a, a) {
			t.Fatalf("VKEY[C30/version-order] not reflexive on %q", a)
		}
		if !ge(a, b) && !ge(b, a) {
			t.Fatalf("VKEY[C30/version-order] not total on %q,%q", a, b)
		}
		if ge(a, b) && ge(b, c) && !ge(a, c) {
			t.Fatalf("VKEY[C30/version-order] not transitive on %q,%q,%q", a, b, c)
		}
		nt := len(verComponents(a)) != len(verComponents(b)) || (cmpModel(a, b) == 0 && a != b)
		col.Case(a+"|"+b+"|"+c, nt, []string{a, b, c})
	})
}
