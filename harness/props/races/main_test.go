package races

import (
	"io"
	"log"
	"os"
	"testing"
	"time"

	pslog "github.com/elementsproject/peerswap/log"
	"github.com/elementsproject/peerswap/swap"

	"verifharness/sim"
	"verifharness/stats"
)

type nopLogger struct{}

func (nopLogger) Infof(string, ...any)  {}
func (nopLogger) Debugf(string, ...any) {}

func TestMain(m *testing.M) {
	log.SetOutput(io.Discard)
	pslog.SetLogger(nopLogger{})
	swap.VerifSetPayTiming(200*time.Microsecond, 20*time.Millisecond)
	swap.VerifSetNoBackoff(true)
	stats.Starved = sim.Starved
	code := m.Run()
	stats.Flush()
	os.Exit(code)
}
