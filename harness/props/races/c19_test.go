package races

import (
	"context"
	"encoding/hex"
	"encoding/json"
	"fmt"
	"os"
	"strings"
	"sync"
	"sync/atomic"
	"testing"
	"time"

	"github.com/btcsuite/btcd/chaincfg/chainhash"
	goelectrum "github.com/checksum0/go-electrum/electrum"
	"github.com/elementsproject/peerswap/electrum"
	"github.com/elementsproject/peerswap/messages"
	"github.com/elementsproject/peerswap/peersync"
	"github.com/elementsproject/peerswap/policy"
	"github.com/elementsproject/peerswap/swap"
	"github.com/elementsproject/peerswap/txwatcher"
	"pgregory.net/rapid"

	"verifharness/sim"
	"verifharness/stats"
)

const (
	mtSwapInRequest   = 42069
	mtSwapOutRequest  = 42071
	mtSwapInAgreement = 42073
	mtOpeningTx       = 42077
	mtCancel          = 42079
	mtCoopClose       = 42081
)

// op is one operation of a concurrent program: a delay (µs) and a function.
type op struct {
	name  string
	delay int
	run   func()
}

// runProgram starts one goroutine per thread; every thread executes its ops in order.
func runProgram(threads [][]op) {
	var wg sync.WaitGroup
	start := make(chan struct{})
	for _, th := range threads {
		wg.Add(1)
		go func(ops []op) {
			defer wg.Done()
			<-start
			for _, o := range ops {
				if o.delay > 0 {
					time.Sleep(time.Duration(o.delay) * time.Microsecond)
				}
				o.run()
			}
		}(th)
	}
	close(start)
	done := make(chan struct{})
	go func() { wg.Wait(); close(done) }()
	select {
	case <-done:
	case <-time.After(20 * time.Second):
		// a dead-lock is C18's business; do not hang the race campaign
	}
}

func describe(threads [][]op) []string {
	var out []string
	for i, th := range threads {
		var names []string
		for _, o := range th {
			names = append(names, fmt.Sprintf("%s@%d", o.name, o.delay))
		}
		out = append(out, fmt.Sprintf("T%d:%s", i, strings.Join(names, ",")))
	}
	return out
}

// ---- scenario: swap service entry points ----

type svcScenario struct {
	w    *sim.World
	a, b *sim.Node
	ids  []string
}

func setupSwaps(t *rapid.T, stage string) *svcScenario {
	w := sim.NewWorld()
	s := &svcScenario{w: w}
	s.a = w.AddNode("alice")
	s.b = w.AddNode("bob")
	w.LN.AddChannel("100x1x0", s.a.Id, s.b.Id, 5_000_000_000, 5_000_000_000)
	w.LN.AddChannel("200x2x0", s.a.Id, s.b.Id, 5_000_000_000, 5_000_000_000)
	if err := s.a.Boot(); err != nil {
		t.Fatalf("boot: %v", err)
	}
	if err := s.b.Boot(); err != nil {
		t.Fatalf("boot: %v", err)
	}
	// alice is taker on channel 1 (swap-out) and maker on channel 2 (swap-in)
	for i, scid := range []string{"100x1x0", "200x2x0"} {
		var sm *swap.SwapStateMachine
		var err error
		if i == 0 {
			sm, err = s.a.Svc.SwapOut(s.b.Id, "btc", scid, s.a.Id, 1_000_000, 20_000)
		} else {
			sm, err = s.a.Svc.SwapIn(s.b.Id, "lbtc", scid, s.a.Id, 1_000_000, 20_000)
		}
		if err != nil {
			t.Fatalf("start: %v", err)
		}
		s.ids = append(s.ids, sm.SwapId.String())
	}
	// honest progress up to the requested stage (sequential, no concurrency yet)
	w.Settle(12)
	if stage == "confirmed-pending" || stage == "late" {
		w.Mine("btc", 3)
		w.Mine("lbtc", 2)
	}
	return s
}

func TestC19SwapServiceRaces(t *testing.T) {
	col := stats.Get("C19.swap")
	rapid.Check(t, func(t *rapid.T) {
		stage := rapid.SampledFrom([]string{"negotiated", "confirmed-pending", "confirmed-pending", "restarted", "restarted"}).Draw(t, "stage")
		s := setupSwaps(t, stage)
		defer s.w.Close()
		if stage == "restarted" {
			// alice restarted: Start() has registered the entry points, RecoverSwaps() runs inside the program
			s.a.Kill()
			if err := s.a.Boot(); err != nil {
				t.Fatalf("boot: %v", err)
			}
		}
		handlerA, payA, confA, csvA := s.a.Entry()
		handlerB, payB, confB, _ := s.b.Entry()
		_ = payB
		cancelFor := func(id string) []byte {
			sid, _ := swap.ParseSwapIdFromString(id)
			b, _ := json.Marshal(&swap.CancelMessage{SwapId: sid, Message: "c"})
			return b
		}
		coopFor := func(id string) []byte {
			sid, _ := swap.ParseSwapIdFromString(id)
			b, _ := json.Marshal(&swap.CoopCloseMessage{SwapId: sid, Message: "c", Privkey: strings.Repeat("22", 32)})
			return b
		}
		palette := map[string]func(){
			"confirm-alice": func() {
				for _, ev := range s.a.DueWatcherEvents() {
					if cb := confA[ev.Chain]; cb != nil && ev.Kind == "confirmed" {
						_ = cb(ev.SwapId, ev.TxHex, nil)
					}
				}
			},
			"confirm-bob": func() {
				for _, ev := range s.b.DueWatcherEvents() {
					if cb := confB[ev.Chain]; cb != nil && ev.Kind == "confirmed" {
						_ = cb(ev.SwapId, ev.TxHex, nil)
					}
				}
			},
			"confirm-err-alice": func() {
				if cb := confA["btc"]; cb != nil {
					_ = cb(s.ids[0], "", fmt.Errorf("exceeded csv limit"))
				}
			},
			"csv-alice":     func() { _ = csvA["lbtc"](s.ids[1]) },
			"cancel-to-a-0": func() { _ = handlerA(s.b.Id, "a45f", cancelFor(s.ids[0])) },
			"cancel-to-a-1": func() { _ = handlerA(s.b.Id, "a45f", cancelFor(s.ids[1])) },
			"coop-to-a-1":   func() { _ = handlerA(s.b.Id, "a461", coopFor(s.ids[1])) },
			"cancel-to-b-0": func() { _ = handlerB(s.a.Id, "a45f", cancelFor(s.ids[0])) },
			"paid-alice":    func() { payA(s.ids[1], swap.INVOICE_CLAIM) },
			"list":          func() { _, _ = s.a.Svc.ListSwaps(); _, _ = s.a.Svc.ListActiveSwaps() },
			"get":           func() { _, _ = s.a.Svc.GetSwap(s.ids[0]); _, _ = s.a.Svc.GetActiveSwap(s.ids[1]) },
			"has-active":    func() { _, _ = s.a.Svc.HasActiveSwaps() },
			"resend":        func() { _ = s.a.Svc.ResendLastMessage(s.ids[1]) },
			"timeouts-alice": func() {
				for _, to := range s.a.Timeouts.Snapshot() {
					to.Fire()
				}
			},
			"recover-alice": func() { _ = s.a.Svc.RecoverSwaps() },
			"new-request": func() {
				var id swap.SwapId
				id[0] = 9
				b, _ := json.Marshal(&swap.SwapInRequestMessage{ProtocolVersion: 7, SwapId: &id, Network: "regtest", Scid: "100x1x0", Amount: 500_000, Pubkey: "02" + strings.Repeat("33", 32), PremiumLimit: 1000})
				_ = handlerA(s.b.Id, "a455", b)
			},
			"deliver-pending": func() {
				for _, m := range s.w.PendingMsgs() {
					to := s.w.NodeById(m.To)
					h := handlerA
					if to == s.b {
						h = handlerB
					}
					_ = h(s.w.Nodes[m.From].Id, fmt.Sprintf("%x", m.Type), m.Payload)
				}
			},
		}
		names := make([]string, 0, len(palette))
		for k := range palette {
			names = append(names, k)
		}
		sortStrings(names)
		nthreads := rapid.IntRange(2, 5).Draw(t, "threads")
		var threads [][]op
		if stage == "restarted" {
			threads = append(threads, []op{{name: "recover-alice", delay: rapid.SampledFrom([]int{0, 20, 100}).Draw(t, "rdelay"), run: palette["recover-alice"]}})
		}
		for i := 0; i < nthreads; i++ {
			n := rapid.IntRange(1, 4).Draw(t, "ops")
			var th []op
			for j := 0; j < n; j++ {
				k := rapid.SampledFrom(names).Draw(t, "op")
				th = append(th, op{name: k, delay: rapid.SampledFrom([]int{0, 0, 20, 100, 400}).Draw(t, "delay"), run: palette[k]})
			}
			threads = append(threads, th)
		}
		runProgram(threads)
		d := describe(threads)
		col.Case(stage+strings.Join(d, "|"), nthreads >= 2, map[string]interface{}{"stage": stage, "program": d})
	})
}

func sortStrings(a []string) {
	for i := 1; i < len(a); i++ {
		for j := i; j > 0 && a[j] < a[j-1]; j-- {
			a[j], a[j-1] = a[j-1], a[j]
		}
	}
}

// ---- scenario: policy ----

func TestC19PolicyRaces(t *testing.T) {
	col := stats.Get("C19.policy")
	dir, _ := os.MkdirTemp("", "c19pol")
	defer os.RemoveAll(dir)
	n := 0
	rapid.Check(t, func(t *rapid.T) {
		n++
		path := fmt.Sprintf("%s/p%d.conf", dir, n)
		pk := func(i int) string { return fmt.Sprintf("02%064x", i) }
		_ = os.WriteFile(path, []byte("allowlisted_peers="+pk(1)+"\nsuspicious_peers="+pk(2)+"\n"), 0o644)
		p, err := policy.CreateFromFile(path)
		if err != nil {
			t.Fatal(err)
		}
		palette := map[string]func(){
			"disable":      func() { _ = p.DisableSwaps() },
			"enable":       func() { _ = p.EnableSwaps() },
			"reload":       func() { _ = p.ReloadFile() },
			"add-allow":    func() { _ = p.AddToAllowlist(pk(3)) },
			"rm-allow":     func() { _ = p.RemoveFromAllowlist(pk(3)) },
			"add-susp":     func() { _ = p.AddToSuspiciousPeerList(pk(4)) },
			"rm-susp":      func() { _ = p.RemoveFromSuspiciousPeerList(pk(4)) },
			"allowed?":     func() { _ = p.IsPeerAllowed(pk(1)) },
			"suspicious?":  func() { _ = p.IsPeerSuspicious(pk(2)) },
			"new-allowed?": func() { _ = p.NewSwapsAllowed() },
			"min?":         func() { _ = p.GetMinSwapAmountMsat(); _ = p.GetReserveOnchainMsat() },
			"get":          func() { _ = p.Get() },
			"string":       func() { _ = p.String() },
		}
		names := make([]string, 0, len(palette))
		for k := range palette {
			names = append(names, k)
		}
		sortStrings(names)
		nthreads := rapid.IntRange(2, 5).Draw(t, "threads")
		var threads [][]op
		for i := 0; i < nthreads; i++ {
			cnt := rapid.IntRange(1, 5).Draw(t, "ops")
			var th []op
			for j := 0; j < cnt; j++ {
				k := rapid.SampledFrom(names).Draw(t, "op")
				th = append(th, op{name: k, delay: rapid.SampledFrom([]int{0, 0, 10, 50}).Draw(t, "delay"), run: palette[k]})
			}
			threads = append(threads, th)
		}
		runProgram(threads)
		d := describe(threads)
		col.Case(strings.Join(d, "|"), true, d)
	})
}

// ---- scenario: real rpc watcher loop against registrations ----

// raceRPC answers from immutable data and the wall clock only: a shared mutex or
// atomic in the fake would add happens-before edges between the watcher's
// goroutines that the real (HTTP) RPC client does not provide.
type raceRPC struct {
	t0 time.Time
}

func (r *raceRPC) GetBlockHeight() (uint64, error) {
	return 100 + uint64(time.Since(r.t0)/(300*time.Millisecond)), nil
}
func (r *raceRPC) bump()                                                 {}
func (r *raceRPC) GetTxOut(string, uint32) (*txwatcher.TxOutResp, error) { return nil, nil }
func (r *raceRPC) GetBlockHash(h uint32) (string, error)                 { return fmt.Sprintf("h%d", h), nil }
func (r *raceRPC) GetRawtransactionWithBlockHash(string, string) (string, error) {
	return "", fmt.Errorf("not found")
}

func TestC19RpcWatcherRaces(t *testing.T) {
	col := stats.Get("C19.rpcwatcher")
	rapid.Check(t, func(t *rapid.T) {
		rpc := &raceRPC{t0: time.Now()}
		ctx, cancel := context.WithCancel(context.Background())
		defer cancel()
		w := txwatcher.NewBlockchainRpcTxWatcher(ctx, rpc, 3)
		w.AddConfirmationCallback(func(string, string, error) error { return nil })
		w.AddCsvCallback(func(string) error { return nil })
		if err := w.StartWatchingTxs(); err != nil {
			t.Fatal(err)
		}
		nreg := rapid.IntRange(1, 4).Draw(t, "registrations")
		var threads [][]op
		for i := 0; i < nreg; i++ {
			id := fmt.Sprintf("swap%d", i)
			d := rapid.SampledFrom([]int{0, 1000, 100_000, 300_000}).Draw(t, "delay")
			threads = append(threads, []op{
				{name: "add-conf", delay: d, run: func() { w.AddWaitForConfirmationTx(id, "tx"+id, 0, 100, 504, nil) }},
				{name: "add-csv", delay: 100, run: func() { w.AddWaitForCsvTx(id, "tx"+id, 0, 100, 1008, nil) }},
				{name: "claimed", delay: 200_000, run: func() { w.TxClaimed([]string{id}) }},
			})
		}
		// blocks keep arriving: the block watcher polls every 500ms
		threads = append(threads, []op{
			{name: "block", delay: 100_000, run: rpc.bump}, {name: "block", delay: 550_000, run: rpc.bump}, {name: "block", delay: 550_000, run: rpc.bump},
		})
		runProgram(threads)
		time.Sleep(150 * time.Millisecond)
		d := describe(threads)
		col.Case(strings.Join(d, "|"), true, d)
	})
}

// ---- scenario: electrum subscriber ----

type raceElectrum struct{}

func (raceElectrum) SubscribeHeaders(context.Context) (<-chan *goelectrum.SubscribeHeadersResult, error) {
	return nil, nil
}
func (raceElectrum) GetHistory(context.Context, string) ([]*goelectrum.GetMempoolResult, error) {
	return nil, nil
}
func (raceElectrum) GetRawTransaction(context.Context, string) (string, error)    { return "", nil }
func (raceElectrum) BroadcastTransaction(context.Context, string) (string, error) { return "", nil }
func (raceElectrum) GetFee(context.Context, uint32) (float32, error)              { return 0, nil }
func (raceElectrum) Ping(context.Context) error                                   { return nil }
func (raceElectrum) Reboot(context.Context) error                                 { return nil }

func TestC19ElectrumSubscriberRaces(t *testing.T) {
	col := stats.Get("C19.electrum")
	rapid.Check(t, func(t *rapid.T) {
		sub := electrum.NewLiquidBlockHeaderSubscriber()
		spk, _ := electrum.NewScriptPubKey(append([]byte{0x00, 0x20}, make([]byte, 32)...))
		var h chainhash.Hash
		mkObs := func(i int) electrum.TXObserver {
			var id swap.SwapId
			id[0] = byte(i)
			if i%2 == 0 {
				o := electrum.NewObserveOpeningTX(id, &h, spk, raceElectrum{}, func(string, string, error) error { return nil }, 10, 60)
				return &o
			}
			o := electrum.NewobserveCSVTX(id, &h, spk, raceElectrum{}, func(string) error { return nil }, 5)
			return &o
		}
		nthreads := rapid.IntRange(2, 5).Draw(t, "threads")
		var threads [][]op
		for i := 0; i < nthreads; i++ {
			i := i
			kind := rapid.SampledFrom([]string{"register", "update", "update", "count", "deregister"}).Draw(t, "kind")
			d := rapid.SampledFrom([]int{0, 10, 100}).Draw(t, "delay")
			switch kind {
			case "register":
				threads = append(threads, []op{{name: kind, delay: d, run: func() { sub.Register(mkObs(i)) }}, {name: kind, delay: d, run: func() { sub.Register(mkObs(i + 10)) }}})
			case "update":
				threads = append(threads, []op{{name: kind, delay: d, run: func() { _ = sub.Update(context.Background(), 100) }}, {name: kind, delay: d, run: func() { _ = sub.Update(context.Background(), 5) }}})
			case "count":
				threads = append(threads, []op{{name: kind, delay: d, run: func() { _ = sub.Count() }}})
			case "deregister":
				threads = append(threads, []op{{name: kind, delay: d, run: func() { sub.Register(mkObs(i)); sub.Deregister(mkObs(i)) }}})
			}
		}
		runProgram(threads)
		d := describe(threads)
		col.Case(strings.Join(d, "|"), true, d)
	})
}

// ---- scenario: peer sync ----

type racePSLN struct{}

func (racePSLN) SendCustomMessage(context.Context, peersync.PeerID, messages.MessageType, []byte) error {
	return nil
}
func (racePSLN) SubscribeCustomMessages(context.Context) (<-chan peersync.CustomMessage, error) {
	return make(chan peersync.CustomMessage), nil
}
func (racePSLN) Stop() error { return nil }
func (racePSLN) ListPeers(context.Context) ([]peersync.PeerID, error) {
	a, _ := peersync.NewPeerID("02" + strings.Repeat("aa", 32))
	b, _ := peersync.NewPeerID("02" + strings.Repeat("bb", 32))
	return []peersync.PeerID{a, b}, nil
}

func TestC19PeerSyncRaces(t *testing.T) {
	col := stats.Get("C19.peersync")
	dir, _ := os.MkdirTemp("/dev/shm", "c19ps")
	defer os.RemoveAll(dir)
	n := 0
	rapid.Check(t, func(t *rapid.T) {
		n++
		st, err := peersync.NewStore(fmt.Sprintf("%s/s%d.db", dir, n))
		if err != nil {
			t.Fatal(err)
		}
		defer st.Close()
		polPath := fmt.Sprintf("%s/p%d.conf", dir, n)
		_ = os.WriteFile(polPath, []byte("accept_all_peers=true\n"), 0o644)
		pol, _ := policy.CreateFromFile(polPath)
		me, _ := peersync.NewPeerID("02" + strings.Repeat("99", 32))
		ps := peersync.NewPeerSync(me, st, racePSLN{}, pol, nil, nil)
		ctx := context.Background()
		peerA, _ := peersync.NewPeerID("02" + strings.Repeat("aa", 32))
		payload := []byte(`{"version":7,"assets":["BTC","LBTC"],"peer_allowed":true}`)
		palette := map[string]func(){
			"poll-msg": func() {
				ps.VerifProcessMessage(ctx, peersync.CustomMessage{From: peerA, Type: messages.MESSAGETYPE_POLL, Payload: payload})
			},
			"request-msg": func() {
				ps.VerifProcessMessage(ctx, peersync.CustomMessage{From: peerA, Type: messages.MESSAGETYPE_REQUEST_POLL, Payload: payload})
			},
			"poll-all":     func() { ps.PollAllPeers(ctx) },
			"force-poll":   func() { ps.ForcePollAllPeers(ctx) },
			"cleanup":      func() { _ = ps.VerifCleanupExpired(ctx) },
			"compatible?":  func() { _ = ps.HasCompatiblePeer(peerA.String()); _, _ = ps.CompatiblePeers() },
			"request-poll": func() { _ = ps.RequestPoll(ctx, peerA) },
			"policy-flip": func() {
				_ = pol.AddToSuspiciousPeerList(peerA.String())
				_ = pol.RemoveFromSuspiciousPeerList(peerA.String())
			},
		}
		names := make([]string, 0, len(palette))
		for k := range palette {
			names = append(names, k)
		}
		sortStrings(names)
		nthreads := rapid.IntRange(2, 4).Draw(t, "threads")
		var threads [][]op
		for i := 0; i < nthreads; i++ {
			cnt := rapid.IntRange(1, 4).Draw(t, "ops")
			var th []op
			for j := 0; j < cnt; j++ {
				k := rapid.SampledFrom(names).Draw(t, "op")
				th = append(th, op{name: k, delay: rapid.SampledFrom([]int{0, 10, 100}).Draw(t, "delay"), run: palette[k]})
			}
			threads = append(threads, th)
		}
		runProgram(threads)
		d := describe(threads)
		col.Case(strings.Join(d, "|"), true, d)
	})
}

var _ = hex.EncodeToString

// ---- scenario: the rpc watcher's csv path (matured outputs, failing / slow callbacks, concurrent blocks) ----

type csvRaceRPC struct {
	deep map[string]bool
}

func (r *csvRaceRPC) GetBlockHeight() (uint64, error) { return 5000, nil }
func (r *csvRaceRPC) GetTxOut(txid string, _ uint32) (*txwatcher.TxOutResp, error) {
	if r.deep[txid] {
		return &txwatcher.TxOutResp{BestBlockHash: "h5000", Confirmations: 2000}, nil
	}
	return &txwatcher.TxOutResp{BestBlockHash: "h5000", Confirmations: 3}, nil
}
func (r *csvRaceRPC) GetBlockHash(h uint32) (string, error) { return fmt.Sprintf("h%d", h), nil }
func (r *csvRaceRPC) GetRawtransactionWithBlockHash(string, string) (string, error) {
	return "", fmt.Errorf("not found")
}

func TestC19RpcCsvRaces(t *testing.T) {
	col := stats.Get("C19.rpc-csv")
	rapid.Check(t, func(t *rapid.T) {
		rpc := &csvRaceRPC{deep: map[string]bool{}}
		ctx, cancel := context.WithCancel(context.Background())
		defer cancel()
		w := txwatcher.NewBlockchainRpcTxWatcher(ctx, rpc, 3)
		var failsLeft atomic.Int32
		failsLeft.Store(int32(rapid.IntRange(0, 3).Draw(t, "callbackFailures")))
		slow := rapid.SampledFrom([]int{0, 200, 2000}).Draw(t, "callbackMicros")
		w.AddCsvCallback(func(string) error {
			if slow > 0 {
				time.Sleep(time.Duration(slow) * time.Microsecond)
			}
			if failsLeft.Add(-1) >= 0 {
				return fmt.Errorf("store is busy")
			}
			return nil
		})
		nreg := rapid.IntRange(1, 3).Draw(t, "registrations")
		var threads [][]op
		for i := 0; i < nreg; i++ {
			id := fmt.Sprintf("swap%d", i)
			rpc.deep["tx"+id] = rapid.IntRange(0, 3).Draw(t, "matured") != 0
			th := []op{{name: "add-csv", delay: rapid.SampledFrom([]int{0, 100, 1000}).Draw(t, "d1"), run: func() { w.AddWaitForCsvTx(id, "tx"+id, 0, 100, 1008, nil) }}}
			for k, n := 0, rapid.IntRange(0, 2).Draw(t, "more"); k < n; k++ {
				switch rapid.SampledFrom([]string{"add-csv", "claimed", "handle"}).Draw(t, "next") {
				case "add-csv":
					th = append(th, op{name: "add-csv", delay: 300, run: func() { w.AddWaitForCsvTx(id, "tx"+id, 0, 100, 1008, nil) }})
				case "claimed":
					th = append(th, op{name: "claimed", delay: 500, run: func() { w.TxClaimed([]string{id}) }})
				case "handle":
					th = append(th, op{name: "handle", delay: 200, run: func() { _ = w.HandleCsvTx(5000) }})
				}
			}
			threads = append(threads, th)
		}
		for i, n := 0, rapid.IntRange(1, 3).Draw(t, "blockThreads"); i < n; i++ {
			threads = append(threads, []op{
				{name: "handle", delay: rapid.SampledFrom([]int{0, 150, 700}).Draw(t, "d2"), run: func() { _ = w.HandleCsvTx(5000) }},
				{name: "handle", delay: 300, run: func() { _ = w.HandleCsvTx(5001) }},
			})
		}
		runProgram(threads)
		time.Sleep(5 * time.Millisecond)
		d := describe(threads)
		col.Case(strings.Join(d, "|")+fmt.Sprintf("f%d s%d", failsLeft.Load(), slow), true, d)
	})
}
