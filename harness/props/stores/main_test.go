package stores

import (
	"os"
	"testing"

	"verifharness/stats"
)

func TestMain(m *testing.M) {
	code := m.Run()
	stats.Flush()
	os.Exit(code)
}
