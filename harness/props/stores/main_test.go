package stores

import (
	"io"
	"log"
	"os"
	"testing"

	pslog "github.com/elementsproject/peerswap/log"

	"verifharness/stats"
)

type nopLogger struct{}

func (nopLogger) Infof(string, ...any)  {}
func (nopLogger) Debugf(string, ...any) {}

func TestMain(m *testing.M) {
	log.SetOutput(io.Discard)
	pslog.SetLogger(nopLogger{})
	code := m.Run()
	stats.Flush()
	os.Exit(code)
}

// fastTempDir prefers a memory-backed directory: peersync.NewStore opens bolt
// with fsync on every commit, which dominates the run time on disk.
func fastTempDir(prefix string) string {
	for _, base := range []string{"/dev/shm", ""} {
		if d, err := os.MkdirTemp(base, prefix); err == nil {
			return d
		}
	}
	panic("no temp dir")
}
