package stores

import (
	"fmt"
	"os"
	"path/filepath"
	"regexp"
	"sort"
	"strings"
	"testing"

	"github.com/elementsproject/peerswap/policy"
	"pgregory.net/rapid"

	"verifharness/pbt"
	"verifharness/stats"
)

var validPk = regexp.MustCompile(`^[0-9a-f]{66}$`)

type polModel struct {
	allow, susp map[string]bool
	acceptAll   bool
	allowNew    bool
}

func (m *polModel) clone() *polModel {
	c := &polModel{allow: map[string]bool{}, susp: map[string]bool{}, acceptAll: m.acceptAll, allowNew: m.allowNew}
	for k := range m.allow {
		c.allow[k] = true
	}
	for k := range m.susp {
		c.susp[k] = true
	}
	return c
}

func pkPool() []string {
	var l []string
	for i := 0; i < 5; i++ {
		l = append(l, fmt.Sprintf("02abcdef%058x", i+1)) // with hex letters, so that upper / mixed case is a different string
	}
	return l
}

func genPk(t *rapid.T, label string) string {
	pool := pkPool()
	return rapid.OneOf(
		rapid.SampledFrom(pool),
		rapid.SampledFrom(pool),
		rapid.SampledFrom([]string{"", "02abc", strings.ToUpper(pool[0]), strings.ToUpper(pool[1]), "02ABcdef" + pool[2][8:], pool[0] + "00", pool[0][:65], "zz" + pool[0][2:], " " + pool[0], pool[0] + "\n", "02" + strings.Repeat("g", 64)}),
	).Draw(t, label)
}

func answers(p *policy.Policy, probe []string) string {
	var sb strings.Builder
	fmt.Fprintf(&sb, "new=%v;", p.NewSwapsAllowed())
	for _, pk := range probe {
		fmt.Fprintf(&sb, "%s:a=%v,s=%v;", pk[:6], p.IsPeerAllowed(pk), p.IsPeerSuspicious(pk))
	}
	return sb.String()
}

func modelAnswers(m *polModel, probe []string) string {
	var sb strings.Builder
	fmt.Fprintf(&sb, "new=%v;", m.allowNew)
	for _, pk := range probe {
		fmt.Fprintf(&sb, "%s:a=%v,s=%v;", pk[:6], m.acceptAll || m.allow[pk], m.susp[pk])
	}
	return sb.String()
}

func TestC25PolicyStateMachine(t *testing.T) { propC25PolicyStateMachine(t) }

// FuzzC25PolicyStateMachine drives the same property body with Go's coverage-guided fuzzer (thorough tier).
func FuzzC25PolicyStateMachine(f *testing.F) { propC25PolicyStateMachine(f) }

func propC25PolicyStateMachine(t testing.TB) {
	col := stats.Get("C25.policy")
	dir := fastTempDir("c25")
	defer os.RemoveAll(dir)
	n := 0
	probe := append(pkPool(), fmt.Sprintf("03%064x", 99))
	pbt.Run(t, func(t *rapid.T) {
		n++
		path := filepath.Join(dir, fmt.Sprintf("policy-%d.conf", n))
		defer os.Remove(path)
		m := &polModel{allow: map[string]bool{}, susp: map[string]bool{}, allowNew: true}
		// pre-existing file content
		var lines []string
		classes := map[string]bool{}
		style := rapid.SampledFrom([]string{"canonical", "canonical", "canonical", "spaces", "no-trailing-newline", "comments", "comments", "empty", "missing"}).Draw(t, "style")
		classes["file:"+style] = true
		eq := "="
		if style == "spaces" {
			eq = " = "
		}
		if style != "empty" && style != "missing" {
			for _, pk := range pkPool() {
				switch rapid.IntRange(0, 7).Draw(t, "pre-"+pk[60:]) {
				case 6:
					// the same entry twice (hand-edited or merged file); the loader accepts it
					lines = append(lines, "allowlisted_peers"+eq+pk, "allowlisted_peers"+eq+pk)
					m.allow[pk] = true
					classes["file-has-duplicate-entry"] = true
				case 7:
					lines = append(lines, "suspicious_peers"+eq+pk, "allowlisted_peers"+eq+pk, "suspicious_peers"+eq+pk)
					m.allow[pk], m.susp[pk] = true, true
					classes["file-has-duplicate-entry"] = true
				case 0:
					lines = append(lines, "allowlisted_peers"+eq+pk)
					m.allow[pk] = true
				case 1:
					lines = append(lines, "suspicious_peers"+eq+pk)
					m.susp[pk] = true
				case 2:
					lines = append(lines, "allowlisted_peers"+eq+pk, "suspicious_peers"+eq+pk)
					m.allow[pk], m.susp[pk] = true, true
				}
			}
			if rapid.Bool().Draw(t, "preAcceptAll") {
				v := rapid.SampledFrom([]string{"true", "1"}).Draw(t, "aav")
				lines = append(lines, "accept_all_peers"+eq+v)
				m.acceptAll = true
			}
			switch rapid.IntRange(0, 2).Draw(t, "preAllowNew") {
			case 1:
				lines = append(lines, "allow_new_swaps"+eq+"false")
				m.allowNew = false
			case 2:
				lines = append(lines, "allow_new_swaps"+eq+"true")
			}
			if rapid.Bool().Draw(t, "preMin") {
				lines = append(lines, "min_swap_amount_msat"+eq+"12345")
			}
			if style == "comments" {
				lines = append([]string{"; managed by peerswap", ""}, lines...)
				// commented-out settings an operator left in the file: they are not entries
				for _, pk := range pkPool()[:2] {
					if rapid.Bool().Draw(t, "commented-"+pk[60:]) {
						lines = append(lines, "# allowlisted_peers"+eq+pk, ";suspicious_peers"+eq+pk)
						classes["file-has-commented-entry"] = true
					}
				}
				if rapid.Bool().Draw(t, "commentedFlag") {
					lines = append(lines, ";allow_new_swaps"+eq+"false", "# allow_new_swaps"+eq+"true")
				}
				lines = append(lines, "# end")
			}
		}
		content := strings.Join(lines, "\n")
		if len(lines) > 0 && style != "no-trailing-newline" {
			content += "\n"
		}
		if style != "missing" {
			if err := os.WriteFile(path, []byte(content), 0o644); err != nil {
				t.Fatal(err)
			}
		}
		p, err := policy.CreateFromFile(path)
		if err != nil {
			t.Fatalf("harness: generated policy file rejected by CreateFromFile: %v\n%s", err, content)
		}
		if got, want := answers(p, probe), modelAnswers(m, probe); got != want {
			t.Fatalf("harness: initial policy differs from the file model:\n got  %s\n want %s\nfile:\n%s", got, want, content)
		}
		var ops []string
		mutated, reloadAfterMutation := false, false
		steps := rapid.IntRange(1, 14).Draw(t, "steps")
		for i := 0; i < steps; i++ {
			op := rapid.SampledFrom([]string{"addAllow", "addAllow", "rmAllow", "rmAllow", "addSusp", "addSusp", "rmSusp", "disable", "enable", "reload", "reopen"}).Draw(t, "op")
			before, _ := os.ReadFile(path)
			memBefore := answers(p, probe)
			next := m.clone()
			var opErr error
			wantErr := false
			arg := ""
			switch op {
			case "addAllow":
				arg = genPk(t, "pk")
				wantErr = !validPk.MatchString(arg) || m.allow[arg]
				if !wantErr {
					next.allow[arg] = true
				}
				opErr = p.AddToAllowlist(arg)
			case "rmAllow":
				arg = genPk(t, "pk")
				wantErr = !validPk.MatchString(arg) || !m.allow[arg]
				if !wantErr {
					delete(next.allow, arg)
				}
				opErr = p.RemoveFromAllowlist(arg)
			case "addSusp":
				arg = genPk(t, "pk")
				wantErr = !validPk.MatchString(arg) || m.susp[arg]
				if !wantErr {
					next.susp[arg] = true
				}
				opErr = p.AddToSuspiciousPeerList(arg)
			case "rmSusp":
				arg = genPk(t, "pk")
				wantErr = !validPk.MatchString(arg) || !m.susp[arg]
				if !wantErr {
					delete(next.susp, arg)
				}
				opErr = p.RemoveFromSuspiciousPeerList(arg)
			case "disable":
				next.allowNew = false
				opErr = p.DisableSwaps()
			case "enable":
				next.allowNew = true
				opErr = p.EnableSwaps()
			case "reload":
				opErr = p.ReloadFile()
				reloadAfterMutation = reloadAfterMutation || mutated
			case "reopen":
				p, opErr = policy.CreateFromFile(path)
				if opErr != nil {
					t.Fatalf("VKEY[C25/reopen-fails:%s] CreateFromFile after %v: %v", style, ops, opErr)
				}
				reloadAfterMutation = reloadAfterMutation || mutated
			}
			ops = append(ops, fmt.Sprintf("%s(%.8s)", op, arg))
			desc := fmt.Sprintf("file style %s, ops %v", style, ops)
			if wantErr {
				if opErr == nil {
					t.Fatalf("VKEY[C25/invalid-op-accepted:%s] %s: operation must be rejected but returned nil", op, desc)
				}
				after, _ := os.ReadFile(path)
				if string(after) != string(before) || answers(p, probe) != memBefore {
					t.Fatalf("VKEY[C25/rejected-op-changed-state:%s] %s: rejected operation changed file or memory", op, desc)
				}
				continue
			}
			if opErr != nil {
				t.Fatalf("VKEY[C25/op-failed:%s:%s] %s: %v\nfile before:\n%s", op, style, desc, opErr, before)
			}
			m = next
			if op != "reload" && op != "reopen" {
				mutated = true
			}
			want := modelAnswers(m, probe)
			if got := answers(p, probe); got != want {
				t.Fatalf("VKEY[C25/memory-differs:%s:%s] %s: in-memory policy\n got  %s\n want %s", op, style, desc, got, want)
			}
			fresh, err := policy.CreateFromFile(path)
			if err != nil {
				cur, _ := os.ReadFile(path)
				t.Fatalf("VKEY[C25/file-unreadable:%s:%s] %s: policy file no longer loads: %v\n%s", op, style, desc, err, cur)
			}
			if got := answers(fresh, probe); got != want {
				cur, _ := os.ReadFile(path)
				t.Fatalf("VKEY[C25/file-differs:%s:%s] %s: a restart would see\n got  %s\n want %s\nfile:\n%s", op, style, desc, got, want, cur)
			}
		}
		var cl []string
		for c := range classes {
			cl = append(cl, c)
		}
		sort.Strings(cl)
		col.Case(style+content+strings.Join(ops, ","), reloadAfterMutation, map[string]interface{}{"file_style": style, "ops": ops}, cl...)
	})
}
