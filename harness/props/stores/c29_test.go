package stores

import (
	"bytes"
	"encoding/json"
	"fmt"
	"os"
	"sort"
	"testing"

	"github.com/elementsproject/peerswap/swap"
	"github.com/elementsproject/peerswap/version"
	"go.etcd.io/bbolt"
	"pgregory.net/rapid"

	"verifharness/pbt"
	"verifharness/stats"
)

func dumpBucket(db *bbolt.DB, name string) string {
	var b bytes.Buffer
	_ = db.View(func(tx *bbolt.Tx) error {
		bk := tx.Bucket([]byte(name))
		if bk == nil {
			b.WriteString("<nil>")
			return nil
		}
		return bk.ForEach(func(k, v []byte) error {
			fmt.Fprintf(&b, "%x=%x;", k, v)
			return nil
		})
	})
	return b.String()
}

func TestC29VersionUpgradeOnlyWhenIdle(t *testing.T) { propC29VersionUpgradeOnlyWhenIdle(t) }

// FuzzC29VersionUpgradeOnlyWhenIdle drives the same property body with Go's coverage-guided fuzzer (thorough tier).
func FuzzC29VersionUpgradeOnlyWhenIdle(f *testing.F) { propC29VersionUpgradeOnlyWhenIdle(f) }

func propC29VersionUpgradeOnlyWhenIdle(t testing.TB) {
	col := stats.Get("C29.upgrade")
	dir := fastTempDir("c29")
	defer os.RemoveAll(dir)
	n := 0
	pbt.Run(t, func(t *rapid.T) {
		n++
		db := openDB(t, dir, fmt.Sprintf("c29-%d.db", n))
		defer func() { db.Close(); os.Remove(db.Path()) }()
		store, err := swap.NewBboltStore(db)
		if err != nil {
			t.Fatal(err)
		}
		nswaps := rapid.IntRange(0, 6).Draw(t, "nswaps")
		allTerminal := true
		var states []string
		usedIds := map[string]bool{}
		for i := 0; i < nswaps; i++ {
			sm, _, _ := genRecord(t)
			// distinct swaps have distinct ids (the store keeps one record per id)
			for usedIds[sm.SwapId.String()] {
				sm.SwapId[31]++
				sm.SwapId[30] ^= byte(i + 1)
			}
			usedIds[sm.SwapId.String()] = true
			// bias towards terminal states so that "all terminal" stores with several swaps are common
			if rapid.IntRange(0, 2).Draw(t, "terminalBias") > 0 {
				sm.Current = rapid.SampledFrom([]swap.StateType{swap.State_ClaimedCsv, swap.State_SwapCanceled, swap.State_ClaimedPreimage, swap.State_ClaimedCoop}).Draw(t, "tstate")
			}
			if err := store.UpdateData(sm); err != nil {
				t.Fatalf("UpdateData: %v", err)
			}
			switch sm.Current {
			case swap.State_ClaimedCsv, swap.State_SwapCanceled, swap.State_ClaimedPreimage, swap.State_ClaimedCoop:
			default:
				allTerminal = false
			}
			states = append(states, string(sm.Current))
		}
		// a record this release cannot decode (written by another release, or damaged) may be a pending swap:
		// it counts as not finished
		if nswaps > 0 && rapid.IntRange(0, 4).Draw(t, "unreadableRecord") == 0 {
			how := rapid.SampledFrom([]string{"last_message-object", "garbage", "truncated"}).Draw(t, "unreadableHow")
			err := db.Update(func(tx *bbolt.Tx) error {
				bk := tx.Bucket([]byte("swaps"))
				k, v := bk.Cursor().First()
				if k == nil {
					return nil
				}
				var nv []byte
				switch how {
				case "garbage":
					nv = []byte("\x00\x01not json")
				case "truncated":
					nv = append([]byte{}, v[:len(v)/2]...)
				default:
					var x map[string]interface{}
					if json.Unmarshal(v, &x) != nil {
						return nil
					}
					d, _ := x["data"].(map[string]interface{})
					if d == nil {
						d = map[string]interface{}{}
						x["data"] = d
					}
					d["last_message"] = map[string]interface{}{"swap_id": "00", "x": 1}
					nv, _ = json.Marshal(x)
				}
				return bk.Put(append([]byte{}, k...), nv)
			})
			if err != nil {
				t.Fatal(err)
			}
			allTerminal = false
			states = append(states, "unreadable:"+how)
		}
		sort.Strings(states)
		vs, err := version.NewVersionService(db)
		if err != nil {
			t.Fatal(err)
		}
		current := version.GetCurrentVersion()
		stored := rapid.SampledFrom([]string{"<absent>", current, "v0.1", "v0.3", "", "v0.2 ", "garbage"}).Draw(t, "stored")
		if stored != "<absent>" {
			if err := db.Update(func(tx *bbolt.Tx) error { return tx.Bucket([]byte("version")).Put([]byte("version"), []byte(stored)) }); err != nil {
				t.Fatal(err)
			}
		}
		svc := swap.NewSwapService(swap.NewSwapServices(store, nil, nil, nil, nil, nil, false, nil, nil, nil, false, nil, nil, nil, nil))
		vBefore, sBefore := dumpBucket(db, "version"), dumpBucket(db, "swaps")
		uerr := vs.SafeUpgrade(svc)
		vAfter, sAfter := dumpBucket(db, "version"), dumpBucket(db, "swaps")
		if sAfter != sBefore {
			t.Fatalf("VKEY[C29/swaps-changed] SafeUpgrade changed swap records")
		}
		wantOK := stored == current || allTerminal
		desc := fmt.Sprintf("stored=%q states=%v", stored, states)
		if wantOK {
			if uerr != nil {
				t.Fatalf("VKEY[C29/upgrade-refused] %s: SafeUpgrade failed although no swap is active: %v", desc, uerr)
			}
			want := fmt.Sprintf("%x=%x;", "version", current)
			if vAfter != want {
				t.Fatalf("VKEY[C29/version-not-set] %s: stored version after upgrade is %s, want %s", desc, vAfter, want)
			}
		} else {
			if uerr == nil {
				t.Fatalf("VKEY[C29/upgraded-with-active-swaps] %s: SafeUpgrade succeeded with a non-terminal swap", desc)
			}
			if vAfter != vBefore {
				t.Fatalf("VKEY[C29/version-changed-on-failure] %s: stored version changed %s -> %s although startup failed", desc, vBefore, vAfter)
			}
		}
		col.Case(desc, !allTerminal && stored != current, map[string]interface{}{"stored": stored, "states": states, "upgrade_ok": uerr == nil}, "stored:"+stored, fmt.Sprintf("allTerminal:%v", allTerminal))
	})
}
