package stores

import (
	"encoding/json"
	"fmt"
	"os"
	"path/filepath"
	"reflect"
	"strings"
	"testing"

	"github.com/elementsproject/peerswap/swap"
	"go.etcd.io/bbolt"
	"pgregory.net/rapid"

	"verifharness/pbt"
	"verifharness/stats"
)

func openDB(t interface{ Fatalf(string, ...interface{}) }, dir, name string) *bbolt.DB {
	db, err := bbolt.Open(filepath.Join(dir, name), 0o600, &bbolt.Options{NoSync: true, NoFreelistSync: true})
	if err != nil {
		t.Fatalf("open db: %v", err)
	}
	return db
}

func gStr(t *rapid.T, label string) string {
	return rapid.OneOf(
		rapid.SampledFrom([]string{"", "x", "<>&", "\"q\"\\", "  ", "\x00\x1f", strings.Repeat("ab", 2000), "regtest", "100x1x0"}),
		rapid.String(),
		rapid.StringMatching(`[0-9a-f]{0,80}`),
	).Draw(t, label)
}

func gI64(t *rapid.T, label string) int64 {
	return rapid.OneOf(rapid.Int64(), rapid.SampledFrom([]int64{0, 1, -1, 1<<63 - 1, -1 << 63, 1<<53 + 1})).Draw(t, label)
}

func gU64(t *rapid.T, label string) uint64 {
	return rapid.OneOf(rapid.Uint64(), rapid.SampledFrom([]uint64{0, 1, 1<<64 - 1, 1<<53 + 1})).Draw(t, label)
}

func gU32(t *rapid.T, label string) uint32 {
	return rapid.OneOf(rapid.Uint32(), rapid.SampledFrom([]uint32{0, 1, 1<<32 - 1})).Draw(t, label)
}

func gBytes(t *rapid.T, label string) []byte {
	k := rapid.IntRange(0, 3).Draw(t, label+"-kind")
	switch k {
	case 0:
		return nil
	case 1:
		return []byte{}
	}
	return rapid.SliceOfN(rapid.Byte(), 1, 64).Draw(t, label)
}

func gId(t *rapid.T, label string) *swap.SwapId {
	var id swap.SwapId
	// the requesting peer chooses the id: degenerate values are legal ids
	switch rapid.IntRange(0, 9).Draw(t, label+"-shape") {
	case 0: // all zero
	case 1:
		for i := range id {
			id[i] = 0xff
		}
	case 2:
		id[rapid.IntRange(0, 31).Draw(t, label+"-byte")] = 1
	default:
		copy(id[:], rapid.SliceOfN(rapid.Byte(), 32, 32).Draw(t, label))
	}
	return &id
}

var allStates = []swap.StateType{"", swap.State_SendCancel, swap.State_SwapCanceled, swap.State_WaitCsv, swap.State_ClaimedCsv, swap.State_ClaimedPreimage, swap.State_ClaimedCoop,
	swap.State_SwapOutSender_CreateSwap, swap.State_SwapOutSender_SendRequest, swap.State_SwapOutSender_AwaitAgreement, swap.State_SwapOutSender_PayFeeInvoice,
	swap.State_SwapOutSender_AwaitTxBroadcastedMessage, swap.State_SwapOutSender_AwaitTxConfirmation, swap.State_SwapOutSender_ValidateTxAndPayClaimInvoice,
	swap.State_SwapOutSender_ClaimSwap, swap.State_SwapOutSender_SendPrivkey, swap.State_SwapOutSender_SendCoopClose,
	swap.State_SwapOutReceiver_CreateSwap, swap.State_SwapOutReceiver_SendFeeInvoice, swap.State_SwapOutReceiver_AwaitFeeInvoicePayment, swap.State_SwapOutReceiver_BroadcastOpeningTx,
	swap.State_SwapOutReceiver_SendTxBroadcastedMessage, swap.State_SwapOutReceiver_AwaitClaimInvoicePayment, swap.State_SwapOutReceiver_ClaimSwapCsv, swap.State_SwapOutReceiver_ClaimSwapCoop,
	swap.State_SwapInSender_CreateSwap, swap.State_SwapInSender_SendRequest, swap.State_SwapInSender_AwaitAgreement, swap.State_SwapInSender_BroadcastOpeningTx,
	swap.State_SwapInSender_SendTxBroadcastedMessage, swap.State_SwapInSender_AwaitClaimPayment, swap.State_SwapInSender_ClaimSwapCsv, swap.State_SwapInSender_ClaimSwapCoop,
	swap.State_SwapInReceiver_CreateSwap, swap.State_SwapInReceiver_SendAgreement, swap.State_SwapInReceiver_AwaitTxBroadcastedMessage, swap.State_SwapInReceiver_AwaitTxConfirmation,
	swap.State_SwapInReceiver_ValidateTxAndPayClaimInvoice, swap.State_SwapInReceiver_ClaimSwap, swap.State_SwapInReceiver_SendPrivkey, swap.State_SwapInReceiver_SendCoopClose}

// genRecord returns a generated record, the number of optional messages it
// carries and how its swap data was built: "literal" (a bare struct), or through
// one of the two constructors the node itself uses ("requester": NewSwapData,
// "responder": NewSwapDataFromRequest) with the id of the state machine, exactly
// as newSwap*FSM do. Half of the constructor-built records carry no message yet
// (a record written before the first message was applied).
func genRecord(t *rapid.T) (*swap.SwapStateMachine, int, string) {
	opt := 0
	sid := gId(t, "sid")
	how := rapid.SampledFrom([]string{"literal", "requester", "responder"}).Draw(t, "how")
	bare := how != "literal" && rapid.Bool().Draw(t, "bare")
	has := func(label string) bool {
		if bare {
			return false
		}
		b := rapid.Bool().Draw(t, label)
		if b {
			opt++
		}
		return b
	}
	var d *swap.SwapData
	switch how {
	case "requester":
		d = swap.NewSwapData(sid, "", "")
	case "responder":
		d = swap.NewSwapDataFromRequest(sid, "")
	default:
		d = &swap.SwapData{}
	}
	if bare {
		how += "-bare"
	}
	if has("inreq") {
		d.SwapInRequest = &swap.SwapInRequestMessage{ProtocolVersion: rapid.Uint8().Draw(t, "v"), SwapId: gId(t, "id1"), Network: gStr(t, "net"), Asset: gStr(t, "asset"), Scid: gStr(t, "scid"), Amount: gU64(t, "amt"), Pubkey: gStr(t, "pk"), PremiumLimit: gI64(t, "pl")}
	}
	if has("inagr") {
		d.SwapInAgreement = &swap.SwapInAgreementMessage{ProtocolVersion: rapid.Uint8().Draw(t, "v2"), SwapId: gId(t, "id2"), Pubkey: gStr(t, "pk2"), Premium: gI64(t, "prem")}
	}
	if has("outreq") {
		d.SwapOutRequest = &swap.SwapOutRequestMessage{ProtocolVersion: rapid.Uint8().Draw(t, "v3"), SwapId: gId(t, "id3"), Network: gStr(t, "net3"), Asset: gStr(t, "asset3"), Scid: gStr(t, "scid3"), Amount: gU64(t, "amt3"), Pubkey: gStr(t, "pk3"), PremiumLimit: gI64(t, "pl3")}
	}
	if has("outagr") {
		d.SwapOutAgreement = &swap.SwapOutAgreementMessage{ProtocolVersion: rapid.Uint8().Draw(t, "v4"), SwapId: gId(t, "id4"), Pubkey: gStr(t, "pk4"), Payreq: gStr(t, "payreq4"), Premium: gI64(t, "prem4")}
	}
	if has("opening") {
		d.OpeningTxBroadcasted = &swap.OpeningTxBroadcastedMessage{SwapId: gId(t, "id5"), Payreq: gStr(t, "payreq5"), TxId: gStr(t, "txid"), ScriptOut: gU32(t, "vout"), BlindingKey: gStr(t, "bk")}
	}
	if has("coop") {
		d.CoopClose = &swap.CoopCloseMessage{SwapId: gId(t, "id6"), Message: gStr(t, "m6"), Privkey: gStr(t, "k6")}
	}
	if has("cancel") {
		d.Cancel = &swap.CancelMessage{SwapId: gId(t, "id7"), Message: gStr(t, "m7")}
	}
	d.CancelMessage = gStr(t, "cancelmsg")
	d.PeerNodeId = gStr(t, "peer")
	d.InitiatorNodeId = gStr(t, "init")
	d.CreatedAt = gI64(t, "created")
	d.Role = swap.SwapRole(rapid.IntRange(0, 3).Draw(t, "drole"))
	d.FSMState = rapid.SampledFrom(allStates).Draw(t, "fsmstate")
	d.PrivkeyBytes = gBytes(t, "priv")
	d.FeePreimage = gStr(t, "feepre")
	d.OpeningTxFee = gU64(t, "otf")
	d.OpeningTxHex = gStr(t, "othex")
	d.StartingBlockHeight = gU32(t, "sbh")
	d.ClaimTxId = gStr(t, "claimtx")
	d.ClaimPaymentHash = gStr(t, "cph")
	d.ClaimPreimage = gStr(t, "cpre")
	d.StartingBlockHeightSet = rapid.Bool().Draw(t, "sbhset")
	d.BlindingKeyHex = gStr(t, "bkhex")
	d.NextMessage = gBytes(t, "nextmsg")
	d.NextMessageType = int(gI64(t, "nmt"))
	d.LastErrString = gStr(t, "lasterr")
	sm := &swap.SwapStateMachine{
		SwapId:   sid,
		Data:     d,
		Type:     swap.SwapType(rapid.IntRange(0, 3).Draw(t, "type")),
		Role:     swap.SwapRole(rapid.IntRange(0, 3).Draw(t, "role")),
		Previous: rapid.SampledFrom(allStates).Draw(t, "prev"),
		Current:  rapid.SampledFrom(allStates).Draw(t, "cur"),
	}
	return sm, opt, how
}

// fieldPolicy lists, for the two persisted structs, what is expected of every
// field across a reload: "persisted" (written to the record, compared by value),
// "memory" (process-local: locks, services, cancel functions, counters; a
// restarted process rebuilds them) or "restored" (not written itself but
// re-derived from the record on reload; the accessor named in restoredVia must
// answer the same before and after, which TestC14RecordRoundTrip checks). A
// field that appears in no list (a newly added one) fails the structural check,
// so that its persistence has to be decided explicitly.
var fieldPolicy = map[string]map[string]string{
	"SwapStateMachine": {"SwapId": "persisted", "Data": "persisted", "Type": "persisted", "Role": "persisted", "Previous": "persisted", "Current": "persisted",
		"States": "memory", "mutex": "memory", "swapServices": "memory", "retries": "memory", "failures": "memory", "stateMutex": "memory", "stateChange": "memory"},
	"SwapData": {"SwapInRequest": "persisted", "SwapInAgreement": "persisted", "SwapOutRequest": "persisted", "SwapOutAgreement": "persisted", "OpeningTxBroadcasted": "persisted",
		"CoopClose": "persisted", "Cancel": "persisted", "CancelMessage": "persisted", "PeerNodeId": "persisted", "InitiatorNodeId": "persisted", "CreatedAt": "persisted",
		"Role": "persisted", "FSMState": "persisted", "PrivkeyBytes": "persisted", "FeePreimage": "persisted", "OpeningTxFee": "persisted", "OpeningTxHex": "persisted",
		"StartingBlockHeight": "persisted", "ClaimTxId": "persisted", "ClaimPaymentHash": "persisted", "ClaimPreimage": "persisted", "StartingBlockHeightSet": "persisted",
		"BlindingKeyHex": "persisted", "LastMessage": "persisted", "NextMessage": "persisted", "NextMessageType": "persisted", "LastErr": "memory", "LastErrString": "persisted",
		"toCancel": "memory",
		// the id the swap was created with: answers GetId() until a message that
		// carries the id has been applied; it equals the record's SwapId
		"swapId": "restored"},
}

// restoredVia names the exported accessor through which a "restored" field is
// observed by the round-trip check.
var restoredVia = map[string]string{"SwapData.swapId": "GetId"}

func TestC14StructuralFieldPolicy(t *testing.T) {
	col := stats.Get("C14.fields")
	for name, typ := range map[string]reflect.Type{"SwapStateMachine": reflect.TypeOf(swap.SwapStateMachine{}), "SwapData": reflect.TypeOf(swap.SwapData{})} {
		pol := fieldPolicy[name]
		for i := 0; i < typ.NumField(); i++ {
			f := typ.Field(i)
			class, known := pol[f.Name]
			if !known {
				t.Fatalf("VKEY[C14/undeclared-field] %s.%s is not covered by the persistence policy of the check", name, f.Name)
			}
			tag := f.Tag.Get("json")
			excluded := tag == "-" || !f.IsExported()
			if class == "persisted" && excluded {
				t.Fatalf("VKEY[C14/field-not-persisted] %s.%s must be persisted but is excluded from the record (tag %q)", name, f.Name, tag)
			}
			if class == "restored" {
				via := restoredVia[name+"."+f.Name]
				if _, ok := reflect.PtrTo(typ).MethodByName(via); !ok {
					t.Fatalf("VKEY[C14/undeclared-field] %s.%s is restored on reload but its accessor %q does not exist", name, f.Name, via)
				}
			}
			col.Case(name+"."+f.Name, true, map[string]interface{}{"field": name + "." + f.Name, "class": class, "tag": tag})
		}
	}
}

func TestC14RecordRoundTrip(t *testing.T) { propC14RecordRoundTrip(t) }

// FuzzC14RecordRoundTrip drives the same property body with Go's coverage-guided fuzzer (thorough tier).
func FuzzC14RecordRoundTrip(f *testing.F) { propC14RecordRoundTrip(f) }

func propC14RecordRoundTrip(t testing.TB) {
	col := stats.Get("C14.roundtrip")
	dir := fastTempDir("c14")
	defer os.RemoveAll(dir)
	db := openDB(t, dir, "c14.db")
	defer db.Close()
	store, err := swap.NewBboltStore(db)
	if err != nil {
		t.Fatal(err)
	}
	pbt.Run(t, func(t *rapid.T) {
		sm, opt, how := genRecord(t)
		want, _ := json.Marshal(sm)
		if err := store.UpdateData(sm); err != nil {
			t.Fatalf("UpdateData: %v", err)
		}
		got, err := store.GetData(sm.SwapId.String())
		if err != nil {
			t.Fatalf("VKEY[C14/reload-fails] GetData: %v\nrecord: %s", err, want)
		}
		check := func(via string, got *swap.SwapStateMachine) {
			// compare every exported persisted field by value
			a, b := *sm, *got
			if !reflect.DeepEqual(a.SwapId, b.SwapId) || a.Type != b.Type || a.Role != b.Role || a.Previous != b.Previous || a.Current != b.Current {
				t.Fatalf("VKEY[C14/reload-differs] %s: state machine header differs\n wrote %s\n got   %+v", via, want, b)
			}
			// the id the swap answers with (for a swap no message has been
			// applied to, the id it was created with). A bare struct without any
			// message never had an id: the node builds swap data only through
			// the two constructors, so that case is outside the domain.
			if ia, ig := a.Data.GetId(), b.Data.GetId(); ia != nil && (ig == nil || *ia != *ig) {
				t.Fatalf("VKEY[C14/reload-differs:GetId] %s: GetId() answered %v before and %v after the reload (%s record)\n wrote %s", via, ia, ig, how, want)
			}
			da, dg := *a.Data, *b.Data
			// normalise the documented equivalence: nil and empty byte slices both mean "no bytes"
			if len(da.PrivkeyBytes) == 0 && len(dg.PrivkeyBytes) == 0 {
				da.PrivkeyBytes, dg.PrivkeyBytes = nil, nil
			}
			if len(da.NextMessage) == 0 && len(dg.NextMessage) == 0 {
				da.NextMessage, dg.NextMessage = nil, nil
			}
			// compare every persisted (exported) field by value; unexported
			// fields are classified by TestC14StructuralFieldPolicy
			for i := 0; i < reflect.TypeOf(da).NumField(); i++ {
				f := reflect.TypeOf(da).Field(i)
				if !f.IsExported() || fieldPolicy["SwapData"][f.Name] != "persisted" {
					continue
				}
				if !reflect.DeepEqual(reflect.ValueOf(da).Field(i).Interface(), reflect.ValueOf(dg).Field(i).Interface()) {
					t.Fatalf("VKEY[C14/reload-differs:%s] %s: field %s differs: wrote %#v, reloaded %#v", f.Name, via, f.Name, reflect.ValueOf(da).Field(i).Interface(), reflect.ValueOf(dg).Field(i).Interface())
				}
			}
		}
		check("GetData", got)
		all, err := store.ListAll()
		if err != nil {
			t.Fatalf("VKEY[C14/reload-fails] ListAll: %v", err)
		}
		found := false
		for _, s := range all {
			if s.SwapId.String() == sm.SwapId.String() {
				check("ListAll", s)
				found = true
			}
		}
		if !found {
			t.Fatalf("VKEY[C14/reload-fails] ListAll does not return the record")
		}
		byPeer, err := store.ListAllByPeer(sm.Data.PeerNodeId)
		if err != nil {
			t.Fatalf("VKEY[C14/reload-fails] ListAllByPeer: %v", err)
		}
		found = false
		for _, s := range byPeer {
			if s.SwapId.String() == sm.SwapId.String() {
				found = true
			}
		}
		if !found {
			t.Fatalf("VKEY[C14/reload-fails] ListAllByPeer(%q) does not return the record", sm.Data.PeerNodeId)
		}
		// second round trip is byte-identical
		j1, _ := json.Marshal(got)
		if err := store.UpdateData(got); err != nil {
			t.Fatalf("UpdateData(2): %v", err)
		}
		got2, err := store.GetData(sm.SwapId.String())
		if err != nil {
			t.Fatalf("VKEY[C14/reload-fails] second GetData: %v", err)
		}
		j2, _ := json.Marshal(got2)
		if string(j1) != string(j2) {
			t.Fatalf("VKEY[C14/second-roundtrip-differs]\n %s\n %s", j1, j2)
		}
		_ = store.DeleteById(sm.SwapId.String()) // keep ListAll small
		extreme := strings.Contains(string(want), "18446744073709551615") || strings.Contains(string(want), "9223372036854775807") || strings.Contains(string(want), "4294967295") || len(want) > 3000
		col.Case(string(want), opt >= 3 || extreme || strings.HasSuffix(how, "-bare"), map[string]interface{}{"optional_messages": opt, "built": how, "json": fmt.Sprintf("%.300s", want)}, fmt.Sprintf("optional:%d", opt), "built:"+how)
	})
}
