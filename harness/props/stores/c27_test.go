package stores

import (
	"context"
	"fmt"
	"math/big"
	"os"
	"testing"

	"github.com/elementsproject/peerswap/peersync"
	"github.com/elementsproject/peerswap/policy"
	"github.com/elementsproject/peerswap/premium"
	"go.etcd.io/bbolt"
	"pgregory.net/rapid"

	"verifharness/pbt"
	"verifharness/stats"
)

type rateKey struct {
	peer  string
	asset premium.AssetType
	op    premium.OperationType
}

// builtinDefaults is the documented default table (ppm).
var builtinDefaults = map[premium.AssetType]map[premium.OperationType]int64{
	premium.BTC:  {premium.SwapIn: 0, premium.SwapOut: 2000},
	premium.LBTC: {premium.SwapIn: 0, premium.SwapOut: 1000},
}

func modelRate(m map[rateKey]int64, peer string, a premium.AssetType, o premium.OperationType) (int64, string) {
	if v, ok := m[rateKey{peer, a, o}]; ok {
		return v, "peer"
	}
	if v, ok := m[rateKey{"default", a, o}]; ok {
		return v, "stored-default"
	}
	return builtinDefaults[a][o], "builtin"
}

// truncDiv is amount*rate/10^6 truncated toward zero, in big integers.
func truncDiv(amount uint64, rate int64) *big.Int {
	p := new(big.Int).Mul(new(big.Int).SetUint64(amount), big.NewInt(rate))
	return p.Quo(p, big.NewInt(1_000_000)) // Quo truncates toward zero
}

func TestC27PremiumRates(t *testing.T) { propC27PremiumRates(t) }

// FuzzC27PremiumRates drives the same property body with Go's coverage-guided fuzzer (thorough tier).
func FuzzC27PremiumRates(f *testing.F) { propC27PremiumRates(f) }

func propC27PremiumRates(t testing.TB) {
	col := stats.Get("C27.premium")
	dir := fastTempDir("c27")
	defer os.RemoveAll(dir)
	n := 0
	peers := []string{"02" + fmt.Sprintf("%064x", 1), "03" + fmt.Sprintf("%064x", 2), "default"}
	assets := []premium.AssetType{premium.BTC, premium.LBTC}
	ops := []premium.OperationType{premium.SwapIn, premium.SwapOut}
	store, err := peersync.NewStore(dir + "/c27-peers.db")
	if err != nil {
		t.Fatal(err)
	}
	defer store.Close()
	pbt.Run(t, func(t *rapid.T) {
		n++
		path := fmt.Sprintf("%s/c27-%d.db", dir, n)
		db, err := bbolt.Open(path, 0o600, &bbolt.Options{NoSync: true})
		if err != nil {
			t.Fatal(err)
		}
		defer func() { db.Close(); os.Remove(path) }()
		ps, err := premium.NewSetting(db)
		if err != nil {
			t.Fatal(err)
		}
		pol, _ := policy.CreateFromFile("")
		me, _ := peersync.NewPeerID("02" + fmt.Sprintf("%064x", 99))
		sync := peersync.NewPeerSync(me, store, nil, pol, nil, ps)
		model := map[rateKey]int64{}
		ctx := context.Background()
		var oplog []string
		classes := map[string]bool{}
		steps := rapid.IntRange(1, 16).Draw(t, "steps")
		for i := 0; i < steps; i++ {
			op := rapid.SampledFrom([]string{"set", "set", "setDefault", "delete", "get", "compute", "compute", "advertise", "reopen"}).Draw(t, "op")
			peer := rapid.SampledFrom(peers[:2]).Draw(t, "peer")
			a := rapid.SampledFrom(assets).Draw(t, "asset")
			o := rapid.SampledFrom(ops).Draw(t, "operation")
			rate := rapid.OneOf(rapid.Int64Range(-1_000_000, 1_000_000), rapid.SampledFrom([]int64{0, 1, -1, 1_000_000, -1_000_000, 999_999, 2000})).Draw(t, "rate")
			switch op {
			case "set":
				pr, _ := premium.NewPremiumRate(a, o, premium.NewPPM(rate))
				if err := ps.SetRate(ctx, peer, pr); err != nil {
					t.Fatalf("SetRate: %v", err)
				}
				model[rateKey{peer, a, o}] = rate
				oplog = append(oplog, fmt.Sprintf("set(%s,%v,%v,%d)", peer[:4], a, o, rate))
			case "setDefault":
				pr, _ := premium.NewPremiumRate(a, o, premium.NewPPM(rate))
				if err := ps.SetDefaultRate(ctx, pr); err != nil {
					t.Fatalf("SetDefaultRate: %v", err)
				}
				model[rateKey{"default", a, o}] = rate
				oplog = append(oplog, fmt.Sprintf("setDefault(%v,%v,%d)", a, o, rate))
			case "delete":
				who := rapid.SampledFrom(peers).Draw(t, "delwho")
				if err := ps.DeleteRate(ctx, who, a, o); err != nil {
					t.Fatalf("DeleteRate: %v", err)
				}
				delete(model, rateKey{who, a, o})
				oplog = append(oplog, fmt.Sprintf("delete(%s,%v,%v)", who[:4], a, o))
			case "reopen":
				db.Close()
				db, err = bbolt.Open(path, 0o600, &bbolt.Options{NoSync: true})
				if err != nil {
					t.Fatal(err)
				}
				ps, err = premium.NewSetting(db)
				if err != nil {
					t.Fatal(err)
				}
				sync = peersync.NewPeerSync(me, store, nil, pol, nil, ps)
				oplog = append(oplog, "reopen")
				classes["reopen"] = true
			case "get":
				want, src := modelRate(model, peer, a, o)
				got, err := ps.GetRate(peer, a, o)
				if err != nil || got.PremiumRatePPM().Value() != want || got.Asset() != a || got.Operation() != o {
					t.Fatalf("VKEY[C27/get-rate] after %v: GetRate(%s,%v,%v) = %v,%v want %d (%s)", oplog, peer[:4], a, o, got, err, want, src)
				}
				classes["fallback:"+src] = true
				dwant, _ := modelRate(model, "default", a, o)
				dgot, err := ps.GetDefaultRate(a, o)
				if err != nil || dgot.PremiumRatePPM().Value() != dwant {
					t.Fatalf("VKEY[C27/get-default-rate] after %v: GetDefaultRate(%v,%v) = %v,%v want %d", oplog, a, o, dgot, err, dwant)
				}
			case "compute":
				amtClass := rapid.SampledFrom([]string{"small", "small", "no-overflow", "supply", "huge"}).Draw(t, "amtClass")
				var amt uint64
				switch amtClass {
				case "small":
					amt = rapid.Uint64Range(0, 1<<40).Draw(t, "amt")
				case "no-overflow":
					amt = rapid.Uint64Range(1<<40, 9_223_372_036_854).Draw(t, "amt")
				case "supply":
					amt = rapid.Uint64Range(9_223_372_036_855, 2_100_000_000_000_000).Draw(t, "amt")
				default:
					amt = rapid.Uint64Range(2_100_000_000_000_000, 1<<64-1).Draw(t, "amt")
				}
				r, src := modelRate(model, peer, a, o)
				want := truncDiv(amt, r)
				got, err := ps.Compute(peer, a, o, amt)
				if err != nil {
					t.Fatalf("Compute: %v", err)
				}
				classes["amount:"+amtClass] = true
				classes["fallback:"+src] = true
				if r < 0 {
					classes["negative-rate"] = true
				}
				if !want.IsInt64() {
					classes["result-exceeds-int64"] = true
					continue // the int64 result type cannot represent it; outside what the API can state
				}
				if big.NewInt(got).Cmp(want) != 0 {
					key := "C27/compute"
					if amtClass == "supply" || amtClass == "huge" {
						key = "C27/compute-overflow:" + amtClass
					}
					t.Fatalf("VKEY[%s] Compute(%s,%v,%v,%d) with rate %d (%s) = %d, want %s", key, peer[:4], a, o, amt, r, src, got, want)
				}
				oplog = append(oplog, fmt.Sprintf("compute(%s,%v,%v,%d)=%d", peer[:4], a, o, amt, got))
			case "advertise":
				pid, _ := peersync.NewPeerID(peer)
				snap := sync.VerifLocalCapability(pid)
				wantIn, _ := modelRate(model, peer, premium.BTC, premium.SwapIn)
				wantOut, _ := modelRate(model, peer, premium.BTC, premium.SwapOut)
				wantLIn, _ := modelRate(model, peer, premium.LBTC, premium.SwapIn)
				wantLOut, _ := modelRate(model, peer, premium.LBTC, premium.SwapOut)
				if snap.BTCSwapInPremiumRatePPM != wantIn || snap.BTCSwapOutPremiumRatePPM != wantOut || snap.LBTCSwapInPremiumRatePPM != wantLIn || snap.LBTCSwapOutPremiumRatePPM != wantLOut {
					t.Fatalf("VKEY[C27/advertised-rates] after %v: advertised to %s: %+v, the node would charge btc %d/%d lbtc %d/%d", oplog, peer[:4], snap, wantIn, wantOut, wantLIn, wantLOut)
				}
				classes["advertise"] = true
			}
		}
		var cl []string
		nt := false
		for c := range classes {
			cl = append(cl, c)
			if c == "fallback:stored-default" || c == "fallback:builtin" || c == "negative-rate" {
				nt = true
			}
		}
		col.Case(fmt.Sprint(oplog), nt, oplog, cl...)
	})
}
