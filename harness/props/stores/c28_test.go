package stores

import (
	"context"
	"encoding/json"
	"fmt"
	"os"
	"sort"
	"sync"
	"testing"
	"time"

	"github.com/elementsproject/peerswap/messages"
	"github.com/elementsproject/peerswap/peersync"
	"github.com/elementsproject/peerswap/policy"
	"pgregory.net/rapid"

	"verifharness/pbt"
	"verifharness/stats"
)

type fakeLN struct {
	mu        sync.Mutex
	connected map[string]bool
	sent      []sentPS
	failSend  bool
	// onSend runs (outside the lock) after a message was handed to the transport: the harness uses it to let
	// a peer's own poll arrive while the poller is still in the middle of its round
	onSend func(to string, typ messages.MessageType)
}

type sentPS struct {
	to      string
	typ     messages.MessageType
	payload []byte
}

func (f *fakeLN) SendCustomMessage(_ context.Context, to peersync.PeerID, msgType messages.MessageType, payload []byte) error {
	f.mu.Lock()
	f.sent = append(f.sent, sentPS{to.String(), msgType, append([]byte{}, payload...)})
	fail, cb := f.failSend, f.onSend
	f.mu.Unlock()
	if fail {
		return fmt.Errorf("peer offline")
	}
	if cb != nil {
		cb(to.String(), msgType)
	}
	return nil
}
func (f *fakeLN) SubscribeCustomMessages(ctx context.Context) (<-chan peersync.CustomMessage, error) {
	return make(chan peersync.CustomMessage), nil
}
func (f *fakeLN) Stop() error { return nil }
func (f *fakeLN) ListPeers(context.Context) ([]peersync.PeerID, error) {
	f.mu.Lock()
	defer f.mu.Unlock()
	var ids []string
	for k, v := range f.connected {
		if v {
			ids = append(ids, k)
		}
	}
	sort.Strings(ids)
	var out []peersync.PeerID
	for _, k := range ids {
		id, _ := peersync.NewPeerID(k)
		out = append(out, id)
	}
	return out, nil
}

type mPeer struct {
	snap     *peersync.PeerCapabilitySnapshot // nil = no capability
	lastSeen time.Duration                    // model clock value of the last observation
	seen     bool
}

func snapEqual(a, b *peersync.PeerCapabilitySnapshot) bool {
	zero := func(s *peersync.PeerCapabilitySnapshot) bool {
		return s == nil || (s.Version == 0 && len(s.Assets) == 0 && !s.PeerAllowed && s.BTCSwapInPremiumRatePPM == 0 && s.BTCSwapOutPremiumRatePPM == 0 && s.LBTCSwapInPremiumRatePPM == 0 && s.LBTCSwapOutPremiumRatePPM == 0)
	}
	if zero(a) || zero(b) {
		return zero(a) && zero(b) // stated equivalence: no capability == all-zero capability
	}
	ja, _ := json.Marshal(a)
	jb, _ := json.Marshal(b)
	return string(ja) == string(jb)
}

func TestC28PeerSyncStateMachine(t *testing.T) { propC28PeerSyncStateMachine(t) }

// FuzzC28PeerSyncStateMachine drives the same property body with Go's coverage-guided fuzzer (thorough tier).
func FuzzC28PeerSyncStateMachine(f *testing.F) { propC28PeerSyncStateMachine(f) }

func propC28PeerSyncStateMachine(t testing.TB) {
	col := stats.Get("C28.peersync")
	dir := fastTempDir("c28")
	defer os.RemoveAll(dir)
	n := 0
	ids := []string{"02" + fmt.Sprintf("%064x", 1), "02" + fmt.Sprintf("%064x", 2), "03" + fmt.Sprintf("%064x", 3), "03" + fmt.Sprintf("%064x", 4)}
	pbt.Run(t, func(t *rapid.T) {
		n++
		path := fmt.Sprintf("%s/c28-%d.db", dir, n)
		store, err := peersync.NewStore(path)
		if err != nil {
			t.Fatal(err)
		}
		defer func() { store.Close(); os.Remove(path) }()
		polPath := fmt.Sprintf("%s/pol-%d.conf", dir, n)
		_ = os.WriteFile(polPath, []byte("accept_all_peers=true\nsuspicious_peers="+ids[3]+"\n"), 0o644)
		defer os.Remove(polPath)
		pol, err := policy.CreateFromFile(polPath)
		if err != nil {
			t.Fatal(err)
		}
		ln := &fakeLN{connected: map[string]bool{}}
		me, _ := peersync.NewPeerID("02" + fmt.Sprintf("%064x", 99))
		ps := peersync.NewPeerSync(me, store, ln, pol, []string{"btc", "lbtc"}, nil)
		cleanupTimeout, requestInterval, _ := ps.VerifIntervals()
		ctx := context.Background()
		model := map[string]*mPeer{}
		var clock time.Duration
		lastRequested := map[string]time.Duration{}
		var oplog []string
		classes := map[string]bool{}
		lastSent := map[string]*peersync.PeerCapabilitySnapshot{}
		susp := map[string]bool{ids[3]: true} // quarantined peers (one from the start, more at run time)

		advance := func(d time.Duration) {
			clock += d
			peers, _ := store.GetAllPeerStates()
			for _, p := range peers {
				if !p.LastObservedAt().IsZero() {
					p.SetLastObservedAt(p.LastObservedAt().Add(-d))
				}
				if !p.LastPollAt().IsZero() {
					p.SetLastPollAt(p.LastPollAt().Add(-d))
				}
				if err := store.SavePeerState(p); err != nil {
					t.Fatalf("save: %v", err)
				}
			}
			ps.VerifBackdateRequests(d)
		}
		checkView := func(where string) {
			for _, id := range ids {
				pid, _ := peersync.NewPeerID(id)
				got, err := store.GetPeerState(pid)
				mp := model[id]
				if mp == nil {
					if err == nil {
						t.Fatalf("VKEY[C28/unexpected-peer-record] %s after %v: store has a record for %s, model has none", where, oplog, id[:6])
					}
					if ps.HasCompatiblePeer(id) {
						t.Fatalf("VKEY[C28/compatible-without-record] %s: HasCompatiblePeer(%s) without a record", where, id[:6])
					}
					continue
				}
				if err != nil {
					t.Fatalf("VKEY[C28/peer-record-missing] %s after %v: no record for %s: %v", where, oplog, id[:6], err)
				}
				var gs *peersync.PeerCapabilitySnapshot
				if got.Capability() != nil {
					gs = peersync.SnapshotFromCapability(got.Capability())
				}
				if !snapEqual(gs, mp.snap) {
					a, _ := json.Marshal(gs)
					b, _ := json.Marshal(mp.snap)
					t.Fatalf("VKEY[C28/capability-differs] %s after %v: stored capability of %s is %s, model %s", where, oplog, id[:6], a, b)
				}
				wantCompat := mp.snap != nil && mp.snap.Version == 7
				if ps.HasCompatiblePeer(id) != wantCompat {
					t.Fatalf("VKEY[C28/compatibility] %s after %v: HasCompatiblePeer(%s)=%v, stored version %v", where, oplog, id[:6], !wantCompat, mp.snap)
				}
			}
		}
		steps := rapid.IntRange(1, 18).Draw(t, "steps")
		for i := 0; i < steps; i++ {
			op := rapid.SampledFrom([]string{"poll", "poll", "poll", "request_poll", "connect", "connect", "disconnect", "advance", "advance", "cleanup", "cleanup", "pollAll", "pollAll", "forcePollAll", "reopen", "junk", "transport", "quarantine"}).Draw(t, "op")
			id := rapid.SampledFrom(ids).Draw(t, "peer")
			pid, _ := peersync.NewPeerID(id)
			suspicious := susp[id]
			switch op {
			case "poll", "request_poll":
				snap := &peersync.PeerCapabilitySnapshot{
					Version:                   rapid.SampledFrom([]uint64{0, 5, 6, 7, 7, 7, 8, 9}).Draw(t, "version"),
					Assets:                    rapid.SampledFrom([][]string{nil, {"BTC"}, {"BTC", "LBTC"}, {"lbtc"}, {"DOGE"}}).Draw(t, "assets"),
					PeerAllowed:               rapid.Bool().Draw(t, "allowed"),
					BTCSwapInPremiumRatePPM:   rapid.SampledFrom([]int64{0, 100, -100, 1_000_000, 1_000_001, -1_000_001}).Draw(t, "r1"),
					BTCSwapOutPremiumRatePPM:  rapid.SampledFrom([]int64{0, 2000, 5}).Draw(t, "r2"),
					LBTCSwapInPremiumRatePPM:  rapid.SampledFrom([]int64{0, 7}).Draw(t, "r3"),
					LBTCSwapOutPremiumRatePPM: rapid.SampledFrom([]int64{0, 1000}).Draw(t, "r4"),
				}
				// often the next poll of a peer differs from its previous one in a single field only
				if prev := lastSent[id]; prev != nil && rapid.IntRange(0, 2).Draw(t, "variation") == 0 {
					v := *prev
					switch rapid.SampledFrom([]string{"peer_allowed", "peer_allowed", "rate", "assets", "same"}).Draw(t, "variedField") {
					case "peer_allowed":
						v.PeerAllowed = !v.PeerAllowed
					case "rate":
						v.LBTCSwapOutPremiumRatePPM += 1
					case "assets":
						if len(v.Assets) == 1 {
							v.Assets = []string{"BTC", "LBTC"}
						} else {
							v.Assets = []string{"BTC"}
						}
					}
					snap = &v
					classes["single-field-variation"] = true
				}
				lastSent[id] = snap
				payload, _ := json.Marshal(snap)
				typ := messages.MESSAGETYPE_POLL
				if op == "request_poll" {
					typ = messages.MESSAGETYPE_REQUEST_POLL
				}
				sentBefore := len(ln.sent)
				ps.VerifProcessMessage(ctx, peersync.CustomMessage{From: pid, Type: typ, Payload: payload})
				valid := true
				for _, a := range snap.Assets {
					if a != "BTC" && a != "LBTC" && a != "lbtc" {
						valid = false
					}
				}
				if snap.BTCSwapInPremiumRatePPM > 1_000_000 || snap.BTCSwapInPremiumRatePPM < -1_000_000 {
					valid = false
				}
				oplog = append(oplog, fmt.Sprintf("%s(%s,v%d,%v,valid=%v)", op, id[:6], snap.Version, snap.Assets, valid))
				if suspicious {
					classes["msg-from-suspicious"] = true
					if len(ln.sent) != sentBefore {
						t.Fatalf("VKEY[C26/peersync-answers-suspicious] peer-sync answered %s from a suspicious peer", op)
					}
				} else {
					if op == "request_poll" {
						// answered with a poll carrying the local capability
						if len(ln.sent) != sentBefore+1 || ln.sent[len(ln.sent)-1].typ != messages.MESSAGETYPE_POLL || ln.sent[len(ln.sent)-1].to != id {
							t.Fatalf("VKEY[C28/request-poll-unanswered] request_poll from %s not answered with exactly one poll", id[:6])
						}
						var back peersync.PeerCapabilitySnapshot
						if err := json.Unmarshal(ln.sent[len(ln.sent)-1].payload, &back); err != nil || back.Version != 7 {
							t.Fatalf("VKEY[C21/poll-payload] poll answer does not decode to the local capability: %v %s", err, ln.sent[len(ln.sent)-1].payload)
						}
						if int(ln.sent[len(ln.sent)-1].typ) != 42083 {
							t.Fatalf("VKEY[C21/type-number] poll sent as %d", ln.sent[len(ln.sent)-1].typ)
						}
					}
					if valid {
						mp := model[id]
						if mp == nil {
							mp = &mPeer{}
							model[id] = mp
						}
						norm := *snap
						if len(norm.Assets) > 0 {
							var as []string
							for _, a := range norm.Assets {
								if a == "lbtc" {
									a = "LBTC"
								}
								as = append(as, a)
							}
							norm.Assets = as
						}
						if mp.snap != nil && norm.Version < mp.snap.Version {
							classes["downgrade-poll"] = true // keeps the newer capability
						} else {
							mp.snap = &norm
						}
						mp.lastSeen, mp.seen = clock, true
					}
				}
			case "junk":
				jp := rapid.SampledFrom([]string{"", "null", "{", "[]", `{"version":"7"}`, `{"assets":[1]}`, "{}"}).Draw(t, "junk")
				ps.VerifProcessMessage(ctx, peersync.CustomMessage{From: pid, Type: messages.MESSAGETYPE_POLL, Payload: []byte(jp)})
				oplog = append(oplog, "junk("+id[:6]+","+jp+")")
				if (jp == "null" || jp == "{}") && !suspicious {
					// decodes to the all-zero capability: an observation of the peer with "no capability"
					mp := model[id]
					if mp == nil {
						mp = &mPeer{}
						model[id] = mp
					}
					if mp.snap == nil || mp.snap.Version == 0 {
						mp.snap = &peersync.PeerCapabilitySnapshot{}
					}
					mp.lastSeen, mp.seen = clock, true
				}
			case "quarantine":
				// a peer - possibly one whose capability is already stored - is put on the suspicious list
				if !susp[id] {
					if err := pol.AddToSuspiciousPeerList(id); err != nil {
						t.Fatalf("harness: AddToSuspiciousPeerList: %v", err)
					}
					susp[id] = true
					if model[id] != nil {
						classes["stored-peer-quarantined"] = true
					}
					oplog = append(oplog, "quarantine("+id[:6]+")")
				}
			case "transport":
				// the transport starts / stops failing (unreachable peers): an attempt that fails still is a request
				ln.mu.Lock()
				ln.failSend = !ln.failSend
				down := ln.failSend
				ln.mu.Unlock()
				classes["transport-failing"] = true
				oplog = append(oplog, fmt.Sprintf("transport(failing=%v)", down))
			case "connect":
				ln.connected[id] = true
				oplog = append(oplog, "connect("+id[:6]+")")
			case "disconnect":
				ln.connected[id] = false
				oplog = append(oplog, "disconnect("+id[:6]+")")
			case "advance":
				d := rapid.SampledFrom([]time.Duration{time.Second, 11 * time.Second, 5 * time.Minute, 9 * time.Minute, 11 * time.Minute, 16 * time.Minute, 31 * time.Minute, 31 * time.Minute, 29 * time.Minute}).Draw(t, "dt")
				advance(d)
				oplog = append(oplog, fmt.Sprintf("advance(%v)", d))
			case "cleanup":
				if err := ps.VerifCleanupExpired(ctx); err != nil {
					t.Fatalf("cleanup: %v", err)
				}
				for pidS, mp := range model {
					expired := mp.seen && clock-mp.lastSeen > cleanupTimeout
					// The harness moves time by back-dating stored timestamps while the wall clock keeps
					// running: a peer whose age is within two seconds of the limit may legitimately be on
					// either side of it. The model follows the implementation there (stated tolerance).
					if d := clock - mp.lastSeen - cleanupTimeout; mp.seen && d > -2*time.Second && d < 2*time.Second && !ln.connected[pidS] {
						pidB, _ := peersync.NewPeerID(pidS)
						_, gerr := store.GetPeerState(pidB)
						expired = gerr != nil
						classes["expiry-at-boundary"] = true
					}
					if expired && !ln.connected[pidS] {
						delete(model, pidS)
						classes["expired-removed"] = true
					} else if expired {
						classes["expired-kept-connected"] = true
					}
				}
				oplog = append(oplog, "cleanup")
			case "pollAll", "forcePollAll":
				force := op == "forcePollAll"
				sentBefore := len(ln.sent)
				// a known peer's poll may arrive while the poll round is under way (the handler runs on
				// its own goroutine in the daemon): its capability must not be lost
				if rapid.IntRange(0, 2).Draw(t, "pollArrivesDuringRound") == 0 {
					from := rapid.SampledFrom(ids[:3]).Draw(t, "arrivingFrom")
					if mp := model[from]; mp != nil {
						ver := uint64(7)
						if mp.snap != nil && mp.snap.Version > ver {
							ver = mp.snap.Version
						}
						fresh := &peersync.PeerCapabilitySnapshot{Version: ver, Assets: []string{"BTC"}, PeerAllowed: true,
							BTCSwapInPremiumRatePPM: int64(rapid.IntRange(1, 900_000).Draw(t, "arrivingRate"))}
						fired := false
						ln.onSend = func(string, messages.MessageType) {
							if fired {
								return
							}
							fired = true
							fp, _ := peersync.NewPeerID(from)
							payload, _ := json.Marshal(fresh)
							ps.VerifProcessMessage(ctx, peersync.CustomMessage{From: fp, Type: messages.MESSAGETYPE_POLL, Payload: payload})
							if susp[from] {
								return // a quarantined peer's poll is ignored
							}
							mp.snap, mp.lastSeen, mp.seen = fresh, clock, true
							classes["poll-arrived-during-round"] = true
							oplog = append(oplog, fmt.Sprintf("poll-arrives-during-round(%s,rate=%d)", from[:6], fresh.BTCSwapInPremiumRatePPM))
						}
					}
				}
				if force {
					ps.ForcePollAllPeers(ctx)
				} else {
					ps.PollAllPeers(ctx)
				}
				ln.onSend = nil
				reqTo := map[string]int{}
				for _, s := range ln.sent[sentBefore:] {
					if susp[s.to] {
						t.Fatalf("VKEY[C26/peersync-polls-suspicious] peer-sync sent %d to a suspicious peer", s.typ)
					}
					if model[s.to] == nil && s.typ == messages.MESSAGETYPE_REQUEST_POLL {
						reqTo[s.to]++
					}
					if int(s.typ) != 42083 && int(s.typ) != 42085 {
						t.Fatalf("VKEY[C21/type-number] peer-sync sent type %d", s.typ)
					}
				}
				// requests to unknown connected peers: at most once per request interval unless forced
				for _, cid := range ids[:3] {
					unknownConnected := model[cid] == nil && ln.connected[cid] && !susp[cid]
					last, asked := lastRequested[cid]
					allowed := unknownConnected && (force || !asked || clock-last >= requestInterval)
					switch {
					case reqTo[cid] > 1:
						t.Fatalf("VKEY[C28/request-duplicated] %d requests to %s in one round", reqTo[cid], cid[:6])
					case reqTo[cid] == 1 && !allowed:
						t.Fatalf("VKEY[C28/request-too-early] after %v: request to %s although asked %v ago (interval %v, force=%v, unknownConnected=%v)", oplog, cid[:6], clock-last, requestInterval, force, unknownConnected)
					case reqTo[cid] == 0 && allowed:
						t.Fatalf("VKEY[C28/request-missing] after %v: no request to unknown connected peer %s (force=%v)", oplog, cid[:6], force)
					}
					if reqTo[cid] == 1 {
						lastRequested[cid] = clock
						classes["request-to-unknown"] = true
					}
				}
				// the poller forgets request times of peers that are no longer connected
				for cid := range lastRequested {
					if !ln.connected[cid] {
						delete(lastRequested, cid)
					}
				}
				oplog = append(oplog, op)
			case "reopen":
				before := map[string]string{}
				peers, _ := store.GetAllPeerStates()
				for _, p := range peers {
					var gs *peersync.PeerCapabilitySnapshot
					if p.Capability() != nil {
						gs = peersync.SnapshotFromCapability(p.Capability())
					}
					j, _ := json.Marshal(gs)
					before[p.ID().String()] = fmt.Sprintf("%s|%s|%d|%d", j, p.Status(), p.LastObservedAt().UnixNano(), p.LastPollAt().UnixNano())
				}
				store.Close()
				store, err = peersync.NewStore(path)
				if err != nil {
					t.Fatalf("reopen: %v", err)
				}
				ps2 := peersync.NewPeerSync(me, store, ln, pol, []string{"btc", "lbtc"}, nil)
				_ = ps2
				ps = ps2
				lastRequested = map[string]time.Duration{} // in-memory only
				peers2, _ := store.GetAllPeerStates()
				if len(peers2) != len(before) {
					t.Fatalf("VKEY[C28/reload-differs] %d records before re-open, %d after", len(before), len(peers2))
				}
				for _, p := range peers2 {
					var gs *peersync.PeerCapabilitySnapshot
					if p.Capability() != nil {
						gs = peersync.SnapshotFromCapability(p.Capability())
					}
					j, _ := json.Marshal(gs)
					now := fmt.Sprintf("%s|%s|%d|%d", j, p.Status(), p.LastObservedAt().UnixNano(), p.LastPollAt().UnixNano())
					if before[p.ID().String()] != now {
						t.Fatalf("VKEY[C28/reload-differs] record of %s: before %s after %s", p.ID().String()[:6], before[p.ID().String()], now)
					}
				}
				classes["reopen"] = true
				oplog = append(oplog, "reopen")
			}
			checkView(op)
		}
		var cl []string
		for c := range classes {
			cl = append(cl, c)
		}
		sort.Strings(cl)
		nt := classes["downgrade-poll"] || classes["expired-removed"] || classes["expired-kept-connected"] || classes["reopen"]
		col.Case(fmt.Sprint(oplog), nt, oplog, cl...)
	})
}
