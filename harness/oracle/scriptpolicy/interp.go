// Package scriptpolicy is a small reference interpreter for the peerswap opening
// script template, written from the protocol description (not from the repo's
// builder). It is validated differentially against btcd's script engine in C02
// and then used where btcd cannot compute the signature hash (Liquid).
//
// Template (witness script of a P2WSH output):
//
//	<maker> CHECKSIG NOTIF
//	    <maker> CHECKSIG NOTIF
//	        SIZE 32 EQUALVERIFY SHA256 <hash> EQUALVERIFY
//	    ENDIF
//	    <taker> CHECKSIG
//	ELSE
//	    <csv> CHECKSEQUENCEVERIFY
//	ENDIF
package scriptpolicy

import (
	"bytes"
	"crypto/sha256"
	"errors"
)

// Params are the values the template is instantiated with.
type Params struct {
	Maker, Taker []byte
	Hash         []byte
	CSV          uint32
}

// SigChecker verifies sigWithHashType for pub over the spending transaction.
// A returned error aborts the script (e.g. non-DER encoding under DERSIG).
type SigChecker func(pub, sigWithHashType []byte) (bool, error)

// TxCtx is the part of the spending transaction BIP68/BIP112 look at.
type TxCtx struct {
	Version  int32
	Sequence uint32
}

const (
	seqDisable = uint32(1) << 31
	seqType    = uint32(1) << 22
	seqMask    = uint32(0xffff)
)

// Older is BIP112's CHECKSEQUENCEVERIFY condition for a height-based lock of n blocks.
func Older(ctx TxCtx, n uint32) bool {
	if n&seqDisable != 0 {
		return true // treated as NOP
	}
	if ctx.Version < 2 {
		return false
	}
	if ctx.Sequence&seqDisable != 0 {
		return false
	}
	// type flags must match: n is height based (csv <= 65535, no type flag)
	if (ctx.Sequence&seqType != 0) != (n&seqType != 0) {
		return false
	}
	return ctx.Sequence&seqMask >= n&seqMask
}

func truthy(b []byte) bool {
	for i, c := range b {
		if c != 0 {
			// negative zero
			if i == len(b)-1 && c == 0x80 {
				return false
			}
			return true
		}
	}
	return false
}

var errStack = errors.New("stack underflow")

// Eval runs the template on the witness stack (redeem script already removed,
// first element = bottom of stack) under consensus rules for witness v0:
// the script must finish with exactly one true element.
func Eval(p Params, stack [][]byte, ctx TxCtx, check SigChecker) (bool, error) {
	st := make([][]byte, len(stack))
	copy(st, stack)
	pop := func() ([]byte, error) {
		if len(st) == 0 {
			return nil, errStack
		}
		v := st[len(st)-1]
		st = st[:len(st)-1]
		return v, nil
	}
	checksig := func(pub []byte) (bool, error) {
		sig, err := pop()
		if err != nil {
			return false, err
		}
		if len(sig) == 0 {
			return false, nil
		}
		return check(pub, sig)
	}
	// <maker> CHECKSIG
	ok1, err := checksig(p.Maker)
	if err != nil {
		return false, err
	}
	if ok1 {
		// ELSE branch: <csv> CSV ; leaves csv on the stack
		if p.CSV&seqDisable == 0 && !Older(ctx, p.CSV) {
			return false, errors.New("csv not satisfied")
		}
		if p.CSV == 0 { // number 0 is false
			return false, nil
		}
		return len(st) == 0, nil
	}
	// NOTIF body
	ok2, err := checksig(p.Maker)
	if err != nil {
		return false, err
	}
	if !ok2 {
		// SIZE 32 EQUALVERIFY SHA256 <hash> EQUALVERIFY
		if len(st) == 0 {
			return false, errStack
		}
		top := st[len(st)-1]
		if len(top) != 32 {
			return false, errors.New("size")
		}
		pre, _ := pop()
		h := sha256.Sum256(pre)
		if !bytes.Equal(h[:], p.Hash) {
			return false, errors.New("hash")
		}
	}
	ok3, err := checksig(p.Taker)
	if err != nil {
		return false, err
	}
	if !ok3 {
		return false, nil
	}
	return len(st) == 0, nil
}

// Build assembles the opening script from the template (minimal pushes), used
// as an independent reference for the repository's script builder.
func Build(p Params) []byte {
	var b []byte
	push := func(d []byte) {
		b = append(b, byte(len(d)))
		b = append(b, d...)
	}
	num := func(n uint32) {
		switch {
		case n == 0:
			b = append(b, 0x00)
		case n <= 16:
			b = append(b, byte(0x50+n))
		default:
			var le []byte
			for v := n; v > 0; v >>= 8 {
				le = append(le, byte(v))
			}
			if le[len(le)-1]&0x80 != 0 {
				le = append(le, 0x00)
			}
			push(le)
		}
	}
	const (
		opCheckSig    = 0xac
		opNotIf       = 0x64
		opSize        = 0x82
		opEqualVerify = 0x88
		opSha256      = 0xa8
		opEndIf       = 0x68
		opElse        = 0x67
		opCSV         = 0xb2
	)
	push(p.Maker)
	b = append(b, opCheckSig, opNotIf)
	push(p.Maker)
	b = append(b, opCheckSig, opNotIf, opSize)
	push([]byte{0x20})
	b = append(b, opEqualVerify, opSha256)
	push(p.Hash)
	b = append(b, opEqualVerify, opEndIf)
	push(p.Taker)
	b = append(b, opCheckSig, opElse)
	num(p.CSV)
	b = append(b, opCSV, opEndIf)
	return b
}
