#!/usr/bin/env python3
"""Parses Go race detector output; prints one normalised key per distinct race (pair of top repository frames)."""
import re, sys

def keys(txt):
    out = {}
    for b in txt.split('=================='):
        if 'DATA RACE' not in b:
            continue
        parts = re.split(r'\n\s*\n', b.strip())
        tops = []
        harness = False
        for p in parts[:2]:
            fr = [l.strip() for l in p.splitlines() if l.startswith('  ') and l.rstrip().endswith(')') and not l.strip().startswith('/')]
            repo = [f for f in fr if 'elementsproject/peerswap' in f]
            if repo:
                f = repo[0]
            elif fr:
                f = fr[0]
                harness = True
            else:
                f = '?'
            f = re.sub(r'\(\)$', '', f).replace('github.com/elementsproject/peerswap/', '')
            f = re.sub(r'\.func\d+(\.\d+)*$', '', f)
            tops.append(f)
        k = ' | '.join(sorted(tops))
        if harness and not any('verifharness' not in t and 'peerswap' in t for t in tops):
            k = 'HARNESS: ' + k
        out[k] = out.get(k, 0) + 1
    return out

if __name__ == '__main__':
    for k, v in sorted(keys(open(sys.argv[1]).read()).items(), key=lambda x: -x[1]):
        print(v, k)
