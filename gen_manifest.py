#!/usr/bin/env python3
"""Regenerates MANIFEST.json from verif_config.py (properties not configured there are listed as not_applicable)."""
import json
import os

from verif_config import PROPS

ROOT = os.path.dirname(os.path.abspath(__file__))
NA_REASONS = json.load(open(os.path.join(ROOT, "not_applicable.json")))

ids = [json.loads(l)["id"] for l in open(os.path.join(ROOT, "properties.jsonl"))]
checks = []
na = []
for pid in ids:
    if pid in PROPS:
        c = PROPS[pid]
        checks.append({
            "property_id": pid,
            "quick_cmd": "./check %s --tier quick" % pid,
            "thorough_cmd": "./check %s --tier thorough" % pid,
            "evidence_file": "/verif/evidence/%s.json" % pid,
            "replay_cmd_template": "./check %s --replay {path}" % pid,
            "engine": c.get("engine", "harness"),
            "level_claimed": {"category": c["level"], "text": c["text"], "design_ref": c.get("design_ref", "DESIGN.md")},
            "level_note": c["level_note"],
            "technique": c["technique"],
        })
    else:
        na.append({"property_id": pid, "reason": NA_REASONS.get(pid, "check not built yet (work in progress); see DESIGN.md")})

hooks_commits = []
hp = os.path.join(ROOT, "hook_commits.txt")
if os.path.exists(hp):
    hooks_commits = [l.split()[0] for l in open(hp) if l.strip() and not l.startswith("#")]

m = {
    "version": 1,
    "setup_cmd": "./setup.sh",
    "hooks": {
        "guard": "verif",
        "enable": "go test -tags verif (the harness module /verif/harness builds /repo through a replace directive)",
        "baseline_off_cmd": "cd /repo && go test -mod=mod -vet=off -count=1 -timeout 25m ./...",
        "source_commits": hooks_commits,
        "add_only": True,
    },
    "engines": [
        {"name": "harness", "path": "/verif/harness", "serves_properties": sorted(PROPS.keys()),
         "kind_free_text": "Go module with rapid v1.3.0 property tests, native fuzz targets and a simulated world (sim/) around the real peerswap packages; driven by /verif/check"},
    ],
    "checks": checks,
    "not_applicable": na,
    "notes": "All checks: ./check <ID> [--tier quick|thorough] [--replay <file>]; VERIF_SEED selects the rapid seed. known_findings.json lists recorded genuine defects and fixed ones.",
}
json.dump(m, open(os.path.join(ROOT, "MANIFEST.json"), "w"), indent=1)
print("claimed:", len(checks), "not claimed:", len(na))
